"""C18 - datastore blocks and contexts address exactly their cells."""
from pyvc.unit import Unit
from pyvc import lang as L
from . import store_contracts as S

TRUSTED = []
ASSUMPTIONS = ['block values hold 16-bit registers / booleans (type invariant of the datastore, stated as precondition)']


def seq_validate(E):
    blk = S.seq_block(E, 'b')
    a, c = E.int('address'), E.int('count', 1, None)
    r = E.call(S.SEQ + '.validate', blk, a, c)
    # property sentence: accepted exactly when all count cells starting at address are populated
    E.prove('validate<=>all-cells-inside', L.Iff(L.truth(r), L.forall(a, a + c, lambda k: S.seq_in_domain(blk, k))))


def seq_get(E):
    blk = S.seq_block(E, 'b')
    a, c = E.int('address'), E.int('count', 1, None)
    E.assume(L.truth(E.call(S.SEQ + '.validate', blk, a, c)))
    old = E.clone(blk)
    r = E.call(S.SEQ + '.getValues', blk, a, c)
    E.prove('get:exactly-count-values', L.length(r) == c)
    E.prove('get:in-address-order', L.forall(0, c, lambda k: L.at(r, k) == L.at(old.values, a + k - old.address)))
    E.prove('get:block-unchanged', E.same_state(blk, old))


def seq_set(E):
    blk = S.seq_block(E, 'b')
    a = E.int('address')
    new = E.ints('new', 0, 65536, minlen=1)
    n = L.length(new)
    E.assume(L.truth(E.call(S.SEQ + '.validate', blk, a, n)))
    old = E.clone(blk)
    E.call(S.SEQ + '.setValues', blk, a, new)
    E.prove('set:extent-unchanged', L.And(blk.address == old.address, L.length(blk.values) == L.length(old.values)))
    E.prove('set:exactly-those-cells', L.forall(old.address, old.address + L.length(old.values), lambda x: L.at(blk.values, x - blk.address) ==
            L.ite(L.And(a <= x, x < a + n), L.at(new, x - a), L.at(old.values, x - old.address))))
    r = E.call(S.SEQ + '.getValues', blk, a, n)
    E.prove('set:visible-to-read', L.eq(r, new))


def seq_set_scalar(E):
    """setValues with a non-list value writes the single cell"""
    blk = S.seq_block(E, 'b')
    a, v = E.int('address'), E.int('value', 0, 65536)
    E.assume(L.truth(E.call(S.SEQ + '.validate', blk, a, 1)))
    old = E.clone(blk)
    E.call(S.SEQ + '.setValues', blk, a, v)
    E.prove('set1:cell', L.at(blk.values, a - blk.address) == v)
    E.prove('set1:others', L.forall(0, L.length(old.values), lambda k: L.Implies(k != a - old.address, L.at(blk.values, k) == L.at(old.values, k))))
    E.prove('set1:extent', L.And(blk.address == old.address, L.length(blk.values) == L.length(old.values)))


def seq_reset(E):
    blk = S.seq_block(E, 'b')
    old = E.clone(blk)
    E.call('pymodbus.datastore.store.BaseModbusDataBlock.reset', blk)
    E.prove('reset:extent', L.And(blk.address == old.address, L.length(blk.values) == L.length(old.values)))
    E.prove('reset:all-default', L.forall(0, L.length(blk.values), lambda k: L.at(blk.values, k) == old.default_value))


def sparse_validate(E):
    blk = S.sparse_block(E, 's')
    a, c = E.int('address'), E.int('count', 1, None)
    r = E.call(S.SPARSE + '.validate', blk, a, c)
    E.prove('validate<=>all-cells-inside', L.Iff(L.truth(r), L.forall(a, a + c, lambda k: L.map_has(blk.values, k))))


def sparse_validate_zero(E):
    blk = S.sparse_block(E, 's')
    a = E.int('address')
    r = E.call(S.SPARSE + '.validate', blk, a, 0)
    E.prove('validate:count0-rejected', L.Not(L.truth(r)))


def sparse_get(E):
    blk = S.sparse_block(E, 's')
    a, c = E.int('address'), E.int('count', 1, None)
    E.assume(L.truth(E.call(S.SPARSE + '.validate', blk, a, c)))
    r = E.call(S.SPARSE + '.getValues', blk, a, c)
    E.prove('get:exactly-count-values', L.length(r) == c)
    E.prove('get:in-address-order', L.forall(0, c, lambda k: L.at(r, k) == L.map_get(blk.values, a + k)))


def sparse_set(E):
    """sparse block: a write of n values to an accepted range changes exactly those cells, keeps the key set, and is read back"""
    blk = S.sparse_block(E, 's')
    a = E.int('address')
    new = E.ints('new', 0, 65536, minlen=1)
    n = L.length(new)
    E.assume(L.truth(E.call(S.SPARSE + '.validate', blk, a, n)))
    old = blk.values.snapshot() if E.mode == 'symbolic' else dict(blk.values)
    E.call(S.SPARSE + '.setValues', blk, a, new)
    k = E.int('k')
    E.prove('sparse.setValues:key-set-unchanged', L.Iff(L.map_has(blk.values, k), L.map_has(old, k)))
    E.prove('sparse.setValues:exactly-those-cells', L.Implies(L.map_has(old, k), L.map_get(blk.values, k) ==
            L.ite(L.And(a <= k, k < a + n), L.at(new, k - a), L.map_get(old, k))))
    got = E.call(S.SPARSE + '.getValues', blk, a, n)
    E.prove('sparse.setValues:read-back', L.eq(got, new))


def slave_offset(E):
    """slave context: documented one-based offset unless zero-mode; table by function code (spec table)"""
    ctx = S.slave_context(E)
    fx = E.choice('fx', sorted(S.TABLE_OF_FC))
    a, c = E.int('address', 0, 65536), E.int('count', 1, 65536)
    blk = ctx.store[S.TABLE_OF_FC[fx]]
    off = L.ite(ctx.zero_mode, 0, 1)
    r = E.method(ctx, 'validate', fx, a, c)
    E.prove('slave.validate:offset+table', L.Iff(L.truth(r), L.forall(a + off, a + off + c, lambda k: S.seq_in_domain(blk, k))))
    E.assume(L.truth(r))
    before = E.clone(ctx)
    got = E.method(ctx, 'getValues', fx, a, c)
    E.prove('slave.getValues:cells', L.And(L.length(got) == c, L.forall(0, c, lambda k: L.at(got, k) == L.at(blk.values, a + off + k - blk.address))))
    E.prove('slave.getValues:pure', E.same_state(ctx, before))


def slave_set(E):
    ctx = S.slave_context(E)
    fx = E.choice('fx', sorted(S.TABLE_OF_FC))
    t = S.TABLE_OF_FC[fx]
    a = E.int('address', 0, 65536)
    new = E.bools('new', minlen=1) if t in S.BIT_TABLES else E.ints('new', 0, 65536, minlen=1)
    n = L.length(new)
    off = L.ite(ctx.zero_mode, 0, 1)
    E.assume(L.truth(E.method(ctx, 'validate', fx, a, n)))
    before = E.clone(ctx)
    E.method(ctx, 'setValues', fx, a, new)
    for tt in 'dcih':
        blk, old = ctx.store[tt], before.store[tt]
        if tt == t:
            E.prove('slave.setValues:extent', L.And(blk.address == old.address, L.length(blk.values) == L.length(old.values)))
            E.prove('slave.setValues:exactly-those-cells', L.forall(0, L.length(old.values), lambda k: L.at(blk.values, k) ==
                    L.ite(L.And(a + off - old.address <= k, k < a + off - old.address + n), L.at(new, k - (a + off - old.address)), L.at(old.values, k))))
        else:
            E.prove('slave.setValues:other-tables-unchanged[%s]' % tt, E.same_state(blk, old))
    E.prove('slave.setValues:zero_mode-unchanged', L.Iff(ctx.zero_mode, before.zero_mode))


SRV = S.SERVER


def server_multi(E):
    """multi-unit server context: exactly the registered ids are routed; 0..247 only can be registered"""
    slaves = E.intmap('slaves')        # unit id -> (handle of) slave context; the server context treats contexts opaquely
    srv = E.obj(SRV, single=False, _slaves=slaves)
    before = E.clone(srv)
    u = E.int('unit')
    op = E.choice('op', ['get', 'contains', 'set', 'del'])
    reg = L.map_has(before._slaves, u)
    if op == 'get':
        out = E.attempt(lambda: E.method(srv, '__getitem__', u))
        if out.ok:
            E.prove('get:registered->its-context', L.And(reg, out.value == L.map_get(before._slaves, u)))
        else:
            E.prove('get:unregistered->NoSuchSlave', L.And(L.Not(reg), out.exc.cls == 'NoSuchSlaveException'))
        E.prove('get:pure', E.same_state(srv, before))
    elif op == 'contains':
        r = E.method(srv, '__contains__', u)
        E.prove('contains<=>registered', L.Iff(L.truth(r), reg))
    elif op == 'set':
        c = E.int('ctx_handle')
        out = E.attempt(lambda: E.method(srv, '__setitem__', u, c))
        inrange = L.And(0 <= u, u <= 247)
        if out.ok:
            E.prove('set:only-0..247', inrange)
            E.prove('set:registers-exactly-u', L.forall(-1, 300, lambda k: L.And(
                L.Iff(L.map_has(srv._slaves, k), L.Or(k == u, L.map_has(before._slaves, k))),
                L.Implies(L.map_has(srv._slaves, k), L.map_get(srv._slaves, k) == L.ite(k == u, c, L.map_get(before._slaves, k))))))
        else:
            E.prove('set:refused->NoSuchSlave', L.And(L.Not(inrange), out.exc.cls == 'NoSuchSlaveException'))
            E.prove('set:refused->unchanged', E.same_state(srv, before))
    else:
        E.assume(reg)
        out = E.attempt(lambda: E.method(srv, '__delitem__', u))
        inrange = L.And(0 <= u, u <= 247)
        if out.ok:
            E.prove('del:removes-exactly-u', L.forall(-1, 300, lambda k: L.And(
                L.Iff(L.map_has(srv._slaves, k), L.And(k != u, L.map_has(before._slaves, k))),
                L.Implies(L.map_has(srv._slaves, k), L.map_get(srv._slaves, k) == L.map_get(before._slaves, k)))))
        else:
            E.prove('del:refused->NoSuchSlave', L.And(L.Not(inrange), out.exc.cls == 'NoSuchSlaveException'))
            E.prove('del:refused->unchanged', E.same_state(srv, before))


def server_single(E):
    """single mode: every unit id reaches the one context"""
    c = E.int('ctx_handle', 1, None)      # a context object is truthy
    srv = E.new(SRV, slaves=c, single=True)
    u = E.int('unit')
    E.prove('single:getitem-any-unit', E.method(srv, '__getitem__', u) == c)
    E.prove('single:contains-any-unit', L.truth(E.method(srv, '__contains__', u)))
    c2 = E.int('ctx2')
    E.method(srv, '__setitem__', u, c2)
    v = E.int('unit2')
    E.prove('single:setitem-replaces-the-one-context', E.method(srv, '__getitem__', v) == c2)


def server_init_multi(E):
    slaves = E.intmap('slaves')
    srv = E.new(SRV, slaves=slaves, single=False)
    u = E.int('unit')
    out = E.attempt(lambda: E.method(srv, '__getitem__', u))
    E.prove('init:routes-exactly-given-map', L.Iff(out.ok, L.map_has(slaves, u)))


def get_units():
    us = [
        S.default_blocks_unit('C18'),
        Unit('C18/seq.validate', seq_validate, ['C18'], functions=[S.SEQ + '.validate']),
        Unit('C18/seq.getValues', seq_get, ['C18'], functions=[S.SEQ + '.getValues', S.SEQ + '.validate']),
        Unit('C18/seq.setValues', seq_set, ['C18'], functions=[S.SEQ + '.setValues', S.SEQ + '.getValues', S.SEQ + '.validate']),
        Unit('C18/seq.setValues.scalar', seq_set_scalar, ['C18'], functions=[S.SEQ + '.setValues']),
        Unit('C18/seq.reset', seq_reset, ['C18'], functions=['pymodbus.datastore.store.BaseModbusDataBlock.reset']),
        Unit('C18/sparse.validate', sparse_validate, ['C18'], functions=[S.SPARSE + '.validate']),
        Unit('C18/sparse.validate.count0', sparse_validate_zero, ['C18'], functions=[S.SPARSE + '.validate']),
    ]
    us += [
        Unit('C18/sparse.getValues', sparse_get, ['C18'], functions=[S.SPARSE + '.getValues']),
        Unit('C18/sparse.setValues', sparse_set, ['C18'], functions=[S.SPARSE + '.setValues', S.SPARSE + '.getValues'],
             loops={(S.SPARSE + '.setValues', 1): S.SparseSetValues.loops[1]}),
        Unit('C18/slave.offset', slave_offset, ['C18'], contracts=S.STORE_CONTRACTS,
             functions=[S.SLAVE + '.validate', S.SLAVE + '.getValues', 'pymodbus.interfaces.IModbusSlaveContext.decode']),
        Unit('C18/slave.setValues', slave_set, ['C18'], contracts=S.STORE_CONTRACTS, functions=[S.SLAVE + '.setValues']),
    ]
    sf = [SRV + '.' + m for m in ('__getitem__', '__contains__', '__setitem__', '__delitem__', '__init__')]
    us += [Unit('C18/server.multi', server_multi, ['C18'], functions=sf),
           Unit('C18/server.single', server_single, ['C18'], functions=sf),
           Unit('C18/server.init.multi', server_init_multi, ['C18'], functions=sf)]
    for c in S.STORE_CONTRACTS + S.SLAVE_CONTRACTS:
        us.append(c.unit())
    return us
