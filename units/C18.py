"""C18 - datastore blocks and contexts address exactly their cells."""
from pyvc.unit import Unit
from pyvc import lang as L
from . import store_contracts as S

TRUSTED = []
ASSUMPTIONS = ['block values hold 16-bit registers / booleans (type invariant of the datastore, stated as precondition)']


def seq_validate(E):
    blk = S.seq_block(E, 'b')
    a, c = E.int('address'), E.int('count', 1, None)
    r = E.call(S.SEQ + '.validate', blk, a, c)
    # property sentence: accepted exactly when all count cells starting at address are populated
    E.prove('validate<=>all-cells-inside', L.Iff(L.truth(r), L.forall(a, a + c, lambda k: S.seq_in_domain(blk, k))))


def seq_get(E):
    blk = S.seq_block(E, 'b')
    a, c = E.int('address'), E.int('count', 1, None)
    E.assume(L.truth(E.call(S.SEQ + '.validate', blk, a, c)))
    old = E.clone(blk)
    r = E.call(S.SEQ + '.getValues', blk, a, c)
    E.prove('get:exactly-count-values', L.length(r) == c)
    E.prove('get:in-address-order', L.forall(0, c, lambda k: L.at(r, k) == L.at(old.values, a + k - old.address)))
    E.prove('get:block-unchanged', E.same_state(blk, old))


def seq_set(E):
    blk = S.seq_block(E, 'b')
    a = E.int('address')
    new = E.ints('new', 0, 65536, minlen=1)
    n = L.length(new)
    E.assume(L.truth(E.call(S.SEQ + '.validate', blk, a, n)))
    old = E.clone(blk)
    E.call(S.SEQ + '.setValues', blk, a, new)
    E.prove('set:extent-unchanged', L.And(blk.address == old.address, L.length(blk.values) == L.length(old.values)))
    E.prove('set:exactly-those-cells', L.forall(old.address, old.address + L.length(old.values), lambda x: L.at(blk.values, x - blk.address) ==
            L.ite(L.And(a <= x, x < a + n), L.at(new, x - a), L.at(old.values, x - old.address))))
    r = E.call(S.SEQ + '.getValues', blk, a, n)
    E.prove('set:visible-to-read', L.eq(r, new))


def seq_set_scalar(E):
    """setValues with a non-list value writes the single cell"""
    blk = S.seq_block(E, 'b')
    a, v = E.int('address'), E.int('value', 0, 65536)
    E.assume(L.truth(E.call(S.SEQ + '.validate', blk, a, 1)))
    old = E.clone(blk)
    E.call(S.SEQ + '.setValues', blk, a, v)
    E.prove('set1:cell', L.at(blk.values, a - blk.address) == v)
    E.prove('set1:others', L.forall(0, L.length(old.values), lambda k: L.Implies(k != a - old.address, L.at(blk.values, k) == L.at(old.values, k))))
    E.prove('set1:extent', L.And(blk.address == old.address, L.length(blk.values) == L.length(old.values)))


def seq_reset(E):
    blk = S.seq_block(E, 'b')
    old = E.clone(blk)
    E.call('pymodbus.datastore.store.BaseModbusDataBlock.reset', blk)
    E.prove('reset:extent', L.And(blk.address == old.address, L.length(blk.values) == L.length(old.values)))
    E.prove('reset:all-default', L.forall(0, L.length(blk.values), lambda k: L.at(blk.values, k) == old.default_value))


def sparse_validate(E):
    blk = S.sparse_block(E, 's')
    a, c = E.int('address'), E.int('count', 1, None)
    r = E.call(S.SPARSE + '.validate', blk, a, c)
    E.prove('validate<=>all-cells-inside', L.Iff(L.truth(r), L.forall(a, a + c, lambda k: L.map_has(blk.values, k))))


def sparse_validate_zero(E):
    blk = S.sparse_block(E, 's')
    a = E.int('address')
    r = E.call(S.SPARSE + '.validate', blk, a, 0)
    E.prove('validate:count0-rejected', L.Not(L.truth(r)))


def get_units():
    us = [
        Unit('C18/seq.validate', seq_validate, ['C18'], functions=[S.SEQ + '.validate']),
        Unit('C18/seq.getValues', seq_get, ['C18'], functions=[S.SEQ + '.getValues', S.SEQ + '.validate']),
        Unit('C18/seq.setValues', seq_set, ['C18'], functions=[S.SEQ + '.setValues', S.SEQ + '.getValues', S.SEQ + '.validate']),
        Unit('C18/seq.setValues.scalar', seq_set_scalar, ['C18'], functions=[S.SEQ + '.setValues']),
        Unit('C18/seq.reset', seq_reset, ['C18'], functions=['pymodbus.datastore.store.BaseModbusDataBlock.reset']),
        Unit('C18/sparse.validate', sparse_validate, ['C18'], functions=[S.SPARSE + '.validate']),
        Unit('C18/sparse.validate.count0', sparse_validate_zero, ['C18'], functions=[S.SPARSE + '.validate']),
    ]
    for c in (S.SeqValidate(), S.SeqGetValues(), S.SeqSetValues(), S.SparseValidate()):
        us.append(c.unit())
    return us
