"""C11 - receivers resynchronise after noise and never go deaf (serial framings: RTU, ASCII, binary).

Per-call obligations (proved, all frame contents symbolic):
  reset-on-bad-check   a complete frame whose checksum does not match (RTU, binary) is discarded: nothing delivered, buffer empty,
                       header reset - so the next read starts at a frame boundary
  reset-on-foreign     a valid frame for a unit the receiver does not accept is discarded the same way (all three)
  skip-to-delimiter    noise without a start delimiter in front of a valid frame (ASCII ':' / binary '{') is skipped and the
                       frame behind it is delivered by the same read
  recovery             from the clean state these leave behind, the next valid frame is delivered (C06 step lemma, re-proved here)
Composition (BOUNDED stand-in, executable twin only): garbage from a fixed alphabet (random bytes, delimiters, truncated valid
frames, bad-checksum frames, foreign-unit frames) followed by valid frames one per read: every frame after the first two is
delivered and the backlog stays below two maximum frames.
Known findings: ASCII keeps a frame whose check failed at the head of its buffer forever (deaf); RTU leaves a header without
'len' behind after an IndexError (every later call raises KeyError until someone calls resetFrame)."""
from pyvc.unit import Unit
from pyvc import lang as L
from spec import checks as CK
from . import framers as F
from . import codec_contracts as K
from .C06 import valid_frame, receiver, check_delivery

TRUSTED = ['S-ADU validity conditions (units/C06.valid_frame)']
ASSUMPTIONS = ['the composed bound "within two maximum-size frames" over arbitrary garbage is a bounded-future statement over call sequences: checked by a bounded executable twin, not proved']
PROP = 'C11'
CS = (K.ComputeCRC(), K.ComputeLRC())


def clean(E, f, kind):
    hdr = E.get(f, '_header')
    reset = (len(hdr) == 0) if kind == 'rtu' else L.And(hdr['len'] == 0, hdr['uid'] == 0)
    return L.And(L.length(E.get(f, '_buffer')) == 0, reset)


def bad_check(kind):
    def lemma(E):
        rec = F.Rec()
        if kind == 'rtu':
            body = E.bytes('unit+pdu', 2, 254)
            crc = E.bytes_n('crc', 2)
            E.assume(L.Not(L.eq(crc, CK.crc_bytes(E, body))))
            frame = E.as_bytes(L.concat(body, crc))
            uid = L.at(body, 0)
        else:
            b = E.bytes('unit+pdu+crc', 4, 256)
            n = L.length(b)
            E.assume(L.forall(0, n, lambda k: L.And(L.at(b, k) != 0x7B, L.at(b, k) != 0x7D)))
            E.assume(L.Not(L.eq(CK.crc_bytes(E, L.slice_(b, 0, n - 2)), L.slice_(b, n - 2, n))))
            frame = E.as_bytes(L.concat([0x7B], b, [0x7D]))
            uid = L.at(b, 0)
        f = receiver(E, kind, rec, [frame])
        cb = E.callback(F.callback(E, rec), 'callback')
        out = E.attempt(lambda: E.method(f, 'processIncomingPacket', frame, cb, [uid], single=False))
        E.prove('bad-check:no-exception', out.ok)
        E.prove('bad-check:nothing-delivered', len(rec.delivered) == 0)
        if out.ok:
            E.prove('bad-check:receiver-back-at-a-frame-boundary(buffer-empty,header-reset)', clean(E, f, kind))
    return lemma


def foreign_unit(kind):
    def lemma(E):
        rec = F.Rec()
        v, info = valid_frame(E, kind)
        mine = E.int('accepted_unit', 1, 248)
        E.assume(mine != info['uid'])
        f = receiver(E, kind, rec, [v])
        cb = E.callback(F.callback(E, rec), 'callback')
        out = E.attempt(lambda: E.method(f, 'processIncomingPacket', v, cb, [mine], single=False))
        E.prove('foreign:no-exception', out.ok)
        E.prove('foreign:not-delivered', len(rec.delivered) == 0)
        if out.ok:
            E.prove('foreign:receiver-back-at-a-frame-boundary(buffer-empty,header-reset)', clean(E, f, kind))
    return lemma


def skip_noise(kind):
    def lemma(E):
        rec = F.Rec()
        v, info = valid_frame(E, kind)
        noise = E.bytes('noise', 1, 40)
        start = 0x3A if kind == 'ascii' else 0x7B
        stop = (0x0D, 0x0A) if kind == 'ascii' else (0x7D,)
        E.assume(L.forall(0, L.length(noise), lambda k: L.And(L.at(noise, k) != start, *[L.at(noise, k) != s for s in stop])))
        f = receiver(E, kind, rec, [v])
        cb = E.callback(F.callback(E, rec), 'callback')
        out = E.attempt(lambda: E.method(f, 'processIncomingPacket', E.as_bytes(L.concat(noise, v)), cb, [info['uid']], single=False))
        E.prove('skip:no-exception', out.ok)
        E.prove('skip:frame-behind-the-noise-is-delivered', len(rec.delivered) == 1)
        if len(rec.delivered) == 1:
            check_delivery(E, rec, 0, info, 'skip')
            E.prove('skip:buffer-empty-afterwards', L.length(E.get(f, '_buffer')) == 0)
    return lemma


def recovery(kind):
    """from the boundary state the lemmas above establish, a valid frame per read is delivered"""
    def lemma(E):
        rec = F.Rec()
        v, info = valid_frame(E, kind)
        f = receiver(E, kind, rec, [v])
        if kind == 'rtu':
            E.method(f, 'resetFrame')        # the state a failed check leaves: buffer empty, header {}
        cb = E.callback(F.callback(E, rec), 'callback')
        out = E.attempt(lambda: E.method(f, 'processIncomingPacket', v, cb, [info['uid']], single=False))
        E.prove('recovery:no-exception', out.ok)
        E.prove('recovery:valid-frame-delivered', len(rec.delivered) == 1)
        if len(rec.delivered) == 1:
            check_delivery(E, rec, 0, info, 'recovery')
            E.prove('recovery:receiver-stays-at-a-frame-boundary', L.length(E.get(f, '_buffer')) == 0)
    return lemma


def ascii_bad_lrc(E):
    """ASCII: a complete frame with a wrong LRC followed (in the same or a later read) by a valid frame"""
    rec = F.Rec()
    h = E.bytes('bad_hextext', 6, 60)
    n = L.length(h)
    E.assume(n % 2 == 0)
    E.assume(L.forall(0, n, lambda k: L.Or(L.And(L.at(h, k) >= 48, L.at(h, k) <= 57), L.And(L.at(h, k) >= 65, L.at(h, k) <= 70))))
    E.assume(CK.lrc(E, CK.unhex(L.slice_(h, 0, n - 2))) != CK.hexval(L.at(h, n - 2)) * 16 + CK.hexval(L.at(h, n - 1)))
    bad = E.as_bytes(L.concat([0x3A], h, [0x0D, 0x0A]))
    v, info = valid_frame(E, 'ascii')
    f = receiver(E, 'ascii', rec, [bad, v])
    cb = E.callback(F.callback(E, rec), 'callback')
    out1 = E.attempt(lambda: E.method(f, 'processIncomingPacket', bad, cb, [info['uid']], single=False))
    out2 = E.attempt(lambda: E.method(f, 'processIncomingPacket', v, cb, [info['uid']], single=False))
    E.prove('ascii:valid-frame-after-a-bad-lrc-frame-is-delivered', L.And(out1.ok, out2.ok, len(rec.delivered) == 1), finding='C11-F1', region=True)


def rtu_sticky(E):
    """RTU: a read that is too short for the length oracle on a framer whose header was cleared"""
    rec = F.Rec()
    v, info = valid_frame(E, 'rtu')
    f = receiver(E, 'rtu', rec, [v])
    E.method(f, 'resetFrame')
    cb = E.callback(F.callback(E, rec), 'callback')
    short = E.as_bytes(L.slice_(v, 0, 2))
    out1 = E.attempt(lambda: E.method(f, 'processIncomingPacket', short, cb, [info['uid']], single=False))
    E.method(f, 'resetFrame') if False else None
    rest = E.as_bytes(L.slice_(v, 2, None))
    out2 = E.attempt(lambda: E.method(f, 'processIncomingPacket', rest, cb, [info['uid']], single=False))
    out3 = E.attempt(lambda: E.method(f, 'processIncomingPacket', v, cb, [info['uid']], single=False))
    E.prove('rtu:no-exception-keeps-escaping-after-a-short-read', L.And(out2.ok, out3.ok), finding='C11-F2', region=True)


def compose(kind):
    """bounded stand-in (concrete only): garbage prefix from an alphabet, then valid frames one per read"""
    def lemma(E):
        if E.mode != 'concrete':
            return
        import struct
        from pymodbus.utilities import computeCRC, computeLRC
        from pymodbus.factory import ServerDecoder
        from pymodbus.bit_read_message import ReadCoilsRequest
        from pymodbus.register_write_message import WriteSingleRegisterRequest
        fr = E.cls(F.QUAL[kind])(ServerDecoder())
        sender = E.cls(F.QUAL[kind])(ServerDecoder())
        frames, val = [], 0x1234
        per_read = E.choice('frames_per_read', [1, 2, 3]) if kind != 'rtu' else 1      # RTU drops what follows the first frame of a read (C06-F3)
        nfr = 5 * per_read + 1
        while len(frames) < nfr:           # binary framing: values whose frames contain no delimiter byte (C03-F1 covers the others)
            fb = sender.buildPacket(WriteSingleRegisterRequest(len(frames) + 1, val, unit=1))
            val += 1
            if kind == 'binary' and (b'{' in fb[1:-1] or b'}' in fb[1:-1]):
                continue
            frames.append(fb)
        foreign = sender.buildPacket(ReadCoilsRequest(1, 8, unit=9))
        from pymodbus.register_write_message import WriteMultipleRegistersRequest
        wm = sender.buildPacket(WriteMultipleRegistersRequest(1, [1, 2, 3], unit=1))     # a request whose length depends on a byte count further in
        bad = bytearray(frames[0]); bad[-3 if kind != 'rtu' else -1] ^= 0x01
        alphabet = {'random': bytes(E.int('g%d' % i, 0, 256) for i in range(E.int('glen', 0, 12))), 'delims': b':{}\r\n{:', 'truncated': frames[-1][:E.int('cut', 1, len(frames[-1]))],
                    'badcheck': bytes(bad), 'foreign': foreign, 'none': b'', 'truncated-before-byte-count': wm[:E.int('cut16', 2, 7)],
                    'truncated-long': wm[:len(wm) - E.int('cutl', 2, 6)]}         # an abandoned frame longer than the frames that follow
        kind_g = E.choice('garbage', sorted(alphabet))
        garbage = alphabet[kind_g]
        got = []
        errors = 0
        resets = 0
        if E.bool('a_frame_was_served_before'):
            # a receiver that has already served a request is in its steady state (for RTU: empty header), not in its constructor's state
            try:
                fr.processIncomingPacket(frames[-1], got.append, [1])
            except Exception:
                fr.resetFrame()
        try:
            fr.processIncomingPacket(garbage, got.append, [1])
        except Exception:
            errors += 1
            resets += 1
            fr.resetFrame()              # what every serving loop does when the framer raises
        got.clear()
        delivered_from = None
        backlog = 0
        for k in range(5):
            try:
                fr.processIncomingPacket(b''.join(frames[k * per_read:(k + 1) * per_read]), got.append, [1])
            except Exception:
                resets += 1
                fr.resetFrame()
            backlog = max(backlog, len(fr._buffer))
        ok_after = all(any(getattr(m, 'address', None) == k + 1 for m in got) for k in range(2 * per_read, 5 * per_read))
        # C11-F1 is the ASCII receiver holding on to a line whose check failed WITHOUT raising (nobody resets it); where it raised, the serving
        # loop's resetFrame has put it back to a frame boundary and the frames after that must come through
        fk = {'finding': 'C11-F1', 'region': kind == 'ascii' and resets == 0 and kind_g in ('badcheck', 'delims', 'truncated', 'random', 'truncated-before-byte-count', 'truncated-long')}
        E.prove('compose:every-frame-after-the-first-two-is-delivered', ok_after, **fk)
        E.prove('compose:backlog-below-two-maximum-frames', backlog <= 2 * 520)
    return lemma


def get_units():
    us = []
    fns = lambda kind: [F.QUAL[kind] + '.' + m for m in ('processIncomingPacket', 'checkFrame', 'resetFrame', 'advanceFrame')]
    for kind in ('rtu', 'binary'):
        us.append(Unit('%s/bad_check.%s' % (PROP, kind), bad_check(kind), [PROP], contracts=CS, functions=fns(kind)))
    for kind in ('rtu', 'ascii', 'binary'):
        us.append(Unit('%s/foreign_unit.%s' % (PROP, kind), foreign_unit(kind), [PROP], contracts=CS, functions=fns(kind)))
        us.append(Unit('%s/recovery.%s' % (PROP, kind), recovery(kind), [PROP], contracts=CS, functions=fns(kind)))
        u = Unit('%s/compose.%s' % (PROP, kind), compose(kind), [PROP], functions=fns(kind))
        u.concrete_only, u.bounded = True, True
        us.append(u)
    for kind in ('ascii', 'binary'):
        us.append(Unit('%s/skip_noise.%s' % (PROP, kind), skip_noise(kind), [PROP], contracts=CS, functions=fns(kind)))
    us.append(Unit('%s/ascii.bad_lrc' % PROP, ascii_bad_lrc, [PROP], contracts=CS, functions=fns('ascii')))
    us.append(Unit('%s/rtu.sticky_header' % PROP, rtu_sticky, [PROP], contracts=CS, functions=fns('rtu')))
    # through the serial-style server handler: whatever the framer raises on garbage (the per-framing exceptions above), the handler swallows it,
    # resets the framer and goes on serving - so an exception never leaves stale bytes at the head of the buffer for the next read
    from .C12 import sync_loop
    from pyvc.unit import LoopAnn
    q = 'pymodbus.server.sync.ModbusSingleRequestHandler.handle'
    us.append(Unit('%s/handler.serial' % PROP, sync_loop('ModbusSingleRequestHandler', tag='C11', fate='reset'), [PROP], functions=[q],
                   loops={(q, 0): LoopAnn('serve', lambda v, j: True)}))
    return us
