"""Contracts for the looping helpers of the PDU codecs: bit packing and the register-list decoders.
Each is pre + executable reference spec written from S-PDU (spec/pdu.py), with the loop invariants
that let the engine cut the real loops."""
from pyvc.unit import FunctionContract, LoopAnn
from pyvc import lang as L
from spec import pdu as P

UT = 'pymodbus.utilities.'
RW, RR, BW = 'pymodbus.register_write_message.', 'pymodbus.register_read_message.', 'pymodbus.bit_write_message.'


class UnpackBitstring(FunctionContract):
    qual = UT + 'unpack_bitstring'
    props = ('C01', 'C02', 'C05')

    def make(self, E):
        return [E.bytes('string')], {}

    def spec(self, E, string):
        return P.unpacked_bits(string)

    loops = {0: LoopAnn('bytes', lambda v, j: L.And(
        L.length(v.bits) == 8 * j,
        L.forall(0, 8 * j, lambda k: L.Iff(L.at(v.bits, k), P.bit_of(L.at(v.string, k // 8), k % 8) == 1))), elem={'bits': 'bool'})}


class PackBitstring(FunctionContract):
    qual = UT + 'pack_bitstring'
    props = ('C01', 'C02')

    def make(self, E):
        return [E.bools('bits')], {}

    def spec(self, E, bits):
        return P.packed_bits(bits)

    @staticmethod
    def _partial(bits, j, i):
        """value of `packed` after i bits of the current byte: bit t of the byte sits at position 7-i+t+... (shifted right once per later bit)"""
        base = j - i
        acc = 0
        for t in range(7):
            # bit t contributes 2**(7 - i + t) once it has been consumed (t < i)
            w = 0
            for iv in range(t + 1, 8):
                w = L.ite(i == iv, 2 ** (7 - iv + t), w)
            acc = acc + L.ite(L.And(t < i, L.truth(L.at(bits, base + t))), w, 0)
        return acc

    loops = {0: LoopAnn('bits', lambda v, j: L.And(
        v.i == j % 8, L.length(v.ret) == j // 8,
        L.forall(0, j // 8, lambda m: L.at(v.ret, m) == P.packed_byte(v.bits, m)),
        v.packed == PackBitstring._partial(v.bits, j, j % 8)))}


def req_fields(E, **kw):
    from . import msgs as M
    f = M.base_fields()
    f.update(kw)
    return f


class WMRegsDecode(FunctionContract):
    """WriteMultipleRegistersRequest.decode on arbitrary bytes"""
    qual = RW + 'WriteMultipleRegistersRequest.decode'
    props = ('C01', 'C02', 'C05')
    compare_state_on_raise = False

    def make(self, E):
        o = E.obj(RW + 'WriteMultipleRegistersRequest', **req_fields(E, address=None, values=[], count=0, byte_count=0))
        return [o, E.bytes('data')], {}

    def spec(self, E, req, data):
        n = L.length(data)
        if n < 5:
            raise E.Raised('struct.error')
        req.address, req.count, req.byte_count = P.u16_at(data, 0), P.u16_at(data, 2), L.at(data, 4)
        if n < 5 + 2 * req.count:
            raise E.Raised('struct.error')
        req.values = P.regs_at(data, 5, req.count)
        return None

    loops = {0: LoopAnn('regs', lambda v, j: L.And(
        L.length(v.self.values) == j, L.length(v.data) >= 5 + 2 * j,
        L.forall(0, j, lambda k: L.at(v.self.values, k) == P.u16_at(v.data, 5 + 2 * k))))}


class RWMRegsDecode(FunctionContract):
    qual = RR + 'ReadWriteMultipleRegistersRequest.decode'
    props = ('C01', 'C02', 'C05')
    compare_state_on_raise = False

    def make(self, E):
        o = E.obj(RR + 'ReadWriteMultipleRegistersRequest', **req_fields(E, read_address=0, read_count=0, write_address=0, write_registers=[None],
                                                                         write_count=1, write_byte_count=2))
        return [o, E.bytes('data')], {}

    def spec(self, E, req, data):
        n = L.length(data)
        if n < 9:
            raise E.Raised('struct.error')
        req.read_address, req.read_count, req.write_address = P.u16_at(data, 0), P.u16_at(data, 2), P.u16_at(data, 4)
        req.write_count, req.write_byte_count = P.u16_at(data, 6), L.at(data, 8)
        # the loop reads one register per 2 bytes announced by the *byte count* field
        m = (req.write_byte_count + 1) // 2
        if n < 9 + 2 * m:
            raise E.Raised('struct.error')
        req.write_registers = P.regs_at(data, 9, m)
        return None

    loops = {0: LoopAnn('regs', lambda v, j: L.And(
        L.length(v.self.write_registers) == j, L.length(v.data) >= 9 + 2 * j,
        L.forall(0, j, lambda k: L.at(v.self.write_registers, k) == P.u16_at(v.data, 9 + 2 * k))))}


CODEC_CONTRACTS = (UnpackBitstring(), PackBitstring(), WMRegsDecode(), RWMRegsDecode())


from spec import checks as CK


class ComputeCRC(FunctionContract):
    """utilities.computeCRC(data) == byte-swapped S-CRC(data) (so that '>H' packing sends the low byte first)"""
    qual = UT + 'computeCRC'
    props = ('C03', 'C07')

    def make(self, E):
        return [E.bytes('data')], {}

    def spec(self, E, data):
        c = CK.crc16(E, data)
        return (c % 256) * 256 + c // 256

    loops = {0: LoopAnn('bytes', lambda v, j: L.And(CK.crc16(v.E, v.data) >= 0,       # (introduces the fold axioms)
                                                   v.crc == v.E.fold_state('crc16', v.data, j, unfold=True), 0 <= v.crc, v.crc < 65536))}


class ComputeLRC(FunctionContract):
    qual = UT + 'computeLRC'
    props = ('C03', 'C07')

    def make(self, E):
        return [E.bytes('data')], {}

    def spec(self, E, data):
        return CK.lrc(E, data)
