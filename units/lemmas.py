"""Lemmas proved by their own units (lemma/<name>) and used as assumption *instances* by other obligations
(E.use_lemma).  The driver refuses to count a dependent obligation when its lemma is not established on the run."""
from pyvc.unit import Unit
from pyvc import lang as L
from spec import pdu as P


def packed_bit_stmt(bits, k):
    """bit k%8 of byte k//8 of the LSB-first packing of `bits` is bits[k] (False beyond the end: zero padding)"""
    n = L.length(bits)
    return L.Iff(P.bit_of(P.packed_byte(bits, k // 8), k % 8) == 1, L.And(k < n, L.truth(L.at(bits, k))))


def packed_bit(E, bits, k):
    return E.use_lemma('packed-bit', packed_bit_stmt(bits, k))


def _packed_bit_unit(E):
    bits = E.bools('bits', 0, 2040)
    k = E.int('k', 0, None)
    j = E.choice('j', range(8))
    E.assume(k % 8 == j)
    E.prove('packed-bit', packed_bit_stmt(bits, k))
    E.prove('packed-byte-range', L.And(0 <= P.packed_byte(bits, k // 8), P.packed_byte(bits, k // 8) < 256))


def lemma_units():
    u = Unit('lemma/packed-bit', _packed_bit_unit, [], level='helper')
    u.kind = 'lemma'
    return [u]
