"""C05 - invalid requests get the right exception and change nothing.

Lemmas are stated over *wire bytes*: pdu -> ServerDecoder.decode -> request.execute(context); the
limits are transcribed from the property statement.  Exception responses carry fc|0x80; whenever the
answer is an exception response the four tables are unchanged (whole-store frame)."""
from pyvc.unit import Unit
from pyvc import lang as L
from spec import pdu as P
from . import store_contracts as S
from . import codec_contracts as K
from . import msgs as M
from .C04 import tables_unchanged

TRUSTED = ['limits 2000/125/1968/123/125+121 and exception codes transcribed from the property statement (MODBUS AP v1.1b3 section 6)']
ASSUMPTIONS = ['request PDUs of the exact length their function code defines (shorter/longer PDUs are C12: decode raises before any store access)']

CONTRACTS = S.SLAVE_CONTRACTS + (K.UnpackBitstring(), K.WMRegsDecode(), K.RWMRegsDecode())
DEC = 'pymodbus.factory.ServerDecoder'


def wire(E, fc, body):
    import_bytes = L.concat([fc], body)
    return E.as_bytes(import_bytes)


def decode_and_execute(E, fc, body, ctx):
    dec = E.new(DEC)
    req = E.method(dec, 'decode', wire(E, fc, body))
    E.prove('decodes-to-request-class', E.classname(req) == M.short(M.REQ[fc]))
    return req, E.method(req, 'execute', ctx)


def in_table(E, ctx, t, a, n):
    """S-REG: the n cells from protocol address a all lie inside table t"""
    blk = ctx.store[t]
    return S.block_valid(E, blk, a + S.offset(ctx), n)


def is_exc(E, resp, fc, code):
    return M.is_exception(E, resp, fc, code)


def read_lemma(fc):
    t, lim = S.TABLE_OF_FC[fc], M.LIMITS[fc]

    def lemma(E):
        ctx = S.slave_context(E, layout=E.choice('layout', S.LAYOUTS))
        body = E.bytes_n('body', 4)
        a, q = P.u16_at(body, 0), P.u16_at(body, 2)
        before = E.clone(ctx)
        req, resp = decode_and_execute(E, fc, body, ctx)
        bad_q = L.Or(q < 1, q > lim)
        E.prove('quantity-outside-limits->03', L.Implies(bad_q, is_exc(E, resp, fc, 3)))
        E.prove('range-outside-table->02', L.Implies(L.And(L.Not(bad_q), L.Not(in_table(E, before, t, a, q))), is_exc(E, resp, fc, 2)))
        E.prove('valid->normal-response', L.Implies(L.And(L.Not(bad_q), in_table(E, before, t, a, q)), E.classname(resp) == M.short(M.RSP[fc])))
        E.prove('store-unchanged', tables_unchanged(E, ctx, before))
    return lemma


def fc05_lemma(E):
    ctx = S.slave_context(E, layout=E.choice('layout', S.LAYOUTS))
    body = E.bytes_n('body', 4)
    a, v = P.u16_at(body, 0), P.u16_at(body, 2)
    before = E.clone(ctx)
    req, resp = decode_and_execute(E, 5, body, ctx)
    illegal = L.And(v != 0x0000, v != 0xFF00)
    E.prove('fc05:value-not-0000/FF00->03', L.Implies(illegal, L.And(is_exc(E, resp, 5, 3), tables_unchanged(E, ctx, before))),
            finding='C05-F1', region=illegal)
    E.prove('fc05:address-outside->02', L.Implies(L.And(L.Not(illegal), L.Not(in_table(E, before, 'c', a, 1))), is_exc(E, resp, 5, 2)))
    if E.classname(resp) == 'ExceptionResponse':
        E.prove('exception->store-unchanged', tables_unchanged(E, ctx, before))


def fc06_lemma(E):
    ctx = S.slave_context(E, layout=E.choice('layout', S.LAYOUTS))
    body = E.bytes_n('body', 4)
    a = P.u16_at(body, 0)
    before = E.clone(ctx)
    req, resp = decode_and_execute(E, 6, body, ctx)
    E.prove('fc06:address-outside->02', L.Implies(L.Not(in_table(E, before, 'h', a, 1)), is_exc(E, resp, 6, 2)))
    E.prove('fc06:valid->normal', L.Implies(in_table(E, before, 'h', a, 1), E.classname(resp) == 'WriteSingleRegisterResponse'))
    if E.classname(resp) == 'ExceptionResponse':
        E.prove('exception->store-unchanged', tables_unchanged(E, ctx, before))


def fc22_lemma(E):
    ctx = S.slave_context(E, layout=E.choice('layout', S.LAYOUTS))
    body = E.bytes_n('body', 6)
    a = P.u16_at(body, 0)
    before = E.clone(ctx)
    req, resp = decode_and_execute(E, 22, body, ctx)
    E.prove('fc22:address-outside->02', L.Implies(L.Not(in_table(E, before, 'h', a, 1)), is_exc(E, resp, 22, 2)))
    if E.classname(resp) == 'ExceptionResponse':
        E.prove('exception->store-unchanged', tables_unchanged(E, ctx, before))


def fc15_lemma(E):
    ctx = S.slave_context(E, layout=E.choice('layout', S.LAYOUTS))
    head = E.bytes_n('head', 5)
    data = E.bytes('data', 0, 247)
    a, q, bc = P.u16_at(head, 0), P.u16_at(head, 2), L.at(head, 4)
    nd = L.length(data)
    E.assume(nd == bc)                                 # a PDU that carries the announced data bytes (otherwise malformed: C12)
    before = E.clone(ctx)
    req, resp = decode_and_execute(E, 15, L.concat(head, data), ctx)
    bad_q = L.Or(q < 1, q > 1968)
    bad_bc = bc != (q + 7) // 8                        # byte count contradicts the quantity
    truncated = q > 8 * nd                             # known finding: decode truncates the quantity to the bits present
    E.prove('fc15:quantity-outside-limits->03', L.Implies(bad_q, is_exc(E, resp, 15, 3)), finding='C05-F2', region=truncated)
    E.prove('fc15:bytecount-contradicts-quantity->03', L.Implies(L.And(L.Not(bad_q), bad_bc), is_exc(E, resp, 15, 3)), finding='C05-F2', region=truncated)
    E.prove('fc15:range-outside-table->02', L.Implies(L.And(L.Not(bad_q), L.Not(bad_bc), L.Not(in_table(E, before, 'c', a, q))), is_exc(E, resp, 15, 2)))
    E.prove('fc15:valid->normal', L.Implies(L.And(L.Not(bad_q), L.Not(bad_bc), in_table(E, before, 'c', a, q)), E.classname(resp) == 'WriteMultipleCoilsResponse'))
    if E.classname(resp) == 'ExceptionResponse':
        E.prove('exception->store-unchanged', tables_unchanged(E, ctx, before))


def fc16_lemma(E):
    ctx = S.slave_context(E, layout=E.choice('layout', S.LAYOUTS))
    head = E.bytes_n('head', 5)
    a, q, bc = P.u16_at(head, 0), P.u16_at(head, 2), L.at(head, 4)
    data = E.bytes('data', 0, 247)
    E.assume(L.length(data) == 2 * q)        # a PDU that carries the announced registers (shorter: decode raises, C12)
    before = E.clone(ctx)
    req, resp = decode_and_execute(E, 16, L.concat(head, data), ctx)
    bad_q = L.Or(q < 1, q > 123)
    bad_bc = bc != 2 * q
    E.prove('fc16:quantity-outside-limits->03', L.Implies(bad_q, is_exc(E, resp, 16, 3)))
    E.prove('fc16:bytecount-contradicts-quantity->03', L.Implies(L.And(L.Not(bad_q), bad_bc), is_exc(E, resp, 16, 3)))
    E.prove('fc16:range-outside-table->02', L.Implies(L.And(L.Not(bad_q), L.Not(bad_bc), L.Not(in_table(E, before, 'h', a, q))), is_exc(E, resp, 16, 2)))
    E.prove('fc16:valid->normal', L.Implies(L.And(L.Not(bad_q), L.Not(bad_bc), in_table(E, before, 'h', a, q)), E.classname(resp) == 'WriteMultipleRegistersResponse'))
    if E.classname(resp) == 'ExceptionResponse':
        E.prove('exception->store-unchanged', tables_unchanged(E, ctx, before))


def fc23_lemma(E):
    ctx = S.slave_context(E, layout=E.choice('layout', S.LAYOUTS))
    head = E.bytes_n('head', 9)
    ra, rq, wa, wq, bc = P.u16_at(head, 0), P.u16_at(head, 2), P.u16_at(head, 4), P.u16_at(head, 6), L.at(head, 8)
    data = E.bytes('data', 0, 244)
    E.assume(L.length(data) == 2 * ((bc + 1) // 2))
    before = E.clone(ctx)
    req, resp = decode_and_execute(E, 23, L.concat(head, data), ctx)
    bad_r, bad_w, bad_bc = L.Or(rq < 1, rq > 125), L.Or(wq < 1, wq > 121), bc != 2 * wq
    bad_v = L.Or(bad_r, bad_w, bad_bc)
    E.prove('fc23:read-quantity-outside->03', L.Implies(bad_r, is_exc(E, resp, 23, 3)))
    E.prove('fc23:write-quantity-outside->03', L.Implies(bad_w, is_exc(E, resp, 23, 3)))
    E.prove('fc23:bytecount-contradicts->03', L.Implies(bad_bc, is_exc(E, resp, 23, 3)))
    both = L.And(in_table(E, before, 'h', wa, wq), in_table(E, before, 'h', ra, rq))
    E.prove('fc23:either-range-outside->02', L.Implies(L.And(L.Not(bad_v), L.Not(both)), is_exc(E, resp, 23, 2)))
    E.prove('fc23:valid->normal', L.Implies(L.And(L.Not(bad_v), both), E.classname(resp) == 'ReadWriteMultipleRegistersResponse'))
    # no write unless both ranges are valid
    E.prove('fc23:no-write-unless-both-valid', L.Implies(L.Not(both), tables_unchanged(E, ctx, before)))
    if E.classname(resp) == 'ExceptionResponse':
        E.prove('exception->store-unchanged', tables_unchanged(E, ctx, before))


SUPPORTED = (1, 2, 3, 4, 5, 6, 7, 8, 11, 12, 15, 16, 17, 20, 21, 22, 23, 24, 43)


def illegal_function_lemma(E):
    """a function code that is not assigned -> exception 01 with fc|0x80, store untouched"""
    ctx = S.slave_context(E, layout=E.choice('layout', S.LAYOUTS))
    fc = E.int('fc', 1, 128)
    E.assume(L.And(*[fc != k for k in SUPPORTED]))
    body = E.bytes('body', 0, 252)
    before = E.clone(ctx)
    dec = E.new(DEC)
    req = E.method(dec, 'decode', wire(E, fc, body))
    resp = E.method(req, 'execute', ctx)
    E.prove('unassigned-fc->01', L.And(E.classname(resp) == 'ExceptionResponse', resp.function_code == fc + 128, resp.exception_code == 1))
    E.prove('store-unchanged', tables_unchanged(E, ctx, before))


def get_units():
    us = []
    for fc in (1, 2, 3, 4):
        us.append(Unit('C05/fc%02d.read' % fc, read_lemma(fc), ['C05'], contracts=CONTRACTS, functions=[M.REQ[fc] + '.execute', DEC + '.decode', DEC + '._helper']))
    for fc, lem in ((5, fc05_lemma), (6, fc06_lemma), (15, fc15_lemma), (16, fc16_lemma), (22, fc22_lemma), (23, fc23_lemma)):
        us.append(Unit('C05/fc%02d' % fc, lem, ['C05'], contracts=CONTRACTS, functions=[M.REQ[fc] + '.execute', M.REQ[fc] + '.decode', DEC + '._helper']))
    us.append(Unit('C05/illegal_function', illegal_function_lemma, ['C05'], contracts=CONTRACTS,
                   functions=[DEC + '._helper', 'pymodbus.pdu.IllegalFunctionRequest.execute']))
    # "a datastore failure during execution yields 04": decided where the failure is caught, in execute() of every front-end
    from . import serve as SV
    for fe in SV.FRONTENDS:
        us.append(Unit('C05/failure.%s' % fe, SV.serve_unicast(fe, 'C05', clauses=('failure',)), ['C05'], functions=SV.FUNCS[fe]))
    for c in S.STORE_CONTRACTS + S.SLAVE_CONTRACTS + (K.UnpackBitstring(), K.WMRegsDecode(), K.RWMRegsDecode()):
        us.append(c.unit())
    return us
