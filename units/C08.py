"""C08 - the synchronous client returns only the reply to its own request.

Contract on ModbusTransactionManager.execute(request) with the transport havoc'd (every read returns arbitrary bytes or
nothing): the returned object is an error object (ModbusIOException) or a message that the framer delivered DURING this
call (so decoded from bytes received in this call: a non-empty stale buffer is reset at entry), and for a delivered
message: on TCP the wire transaction id equals the request's, on serial framings the wire unit id equals the request's,
and its function code is the request's or that | 0x80.  Transaction ids are allocated as (tid + 1) mod 65536."""
from pyvc.unit import Unit
from pyvc import lang as L
from . import framers as F
from . import client as CL
from . import codec_contracts as K

TRUSTED = []
ASSUMPTIONS = ['transport abstracted: recv(n) returns any byte string of length <= n (any length when n is None) or raises OSError; send accepts the frame',
               'decoder abstracted: any non-empty PDU yields a message whose function code is the first PDU byte',
               'retries = 0..1 in these lemmas (the loop is unrolled; the pairing logic after the loop does not depend on the retry count)']
PROP = 'C08'
CS = (K.ComputeCRC(), K.ComputeLRC())
TMQ = 'pymodbus.transaction.ModbusTransactionManager'


def pairing(kind):
    def lemma(E):
        wire, rec = CL.Wire(), F.Rec()

        def transport(i, size):
            d = E.bytes('rx%d' % i, 0, 300)
            if size is not None:
                E.assume(L.length(d) <= size)
            return d
        retries = E.choice('retries', [1])
        client, tm, f = CL.make_client(E, kind, wire, rec, retries, False, False, transport)
        stale = E.bytes('stale_buffer', 0, 40)          # left over from an earlier, timed-out transaction
        E.set(f, '_buffer', stale)
        req, uid, n = CL.request(E)
        old_tid = tm.tid
        out = E.attempt(lambda: E.method(tm, 'execute', req))
        E.prove('pairing:no-exception', out.ok, **({'finding': 'C13-F3', 'region': True} if kind in ('ascii', 'rtu') else {}))
        if not out.ok:
            return
        r = out.value
        E.prove('tid:allocated-as-previous+1-mod-65536', req.transaction_id == (old_tid + 1) % 65536)
        if E.classname(r) == 'ModbusIOException':
            E.prove('result:error-object', True)
            return
        mine = [d for d in rec.delivered if d[0] is r]
        E.prove('result:is-a-message-delivered-during-this-call', len(mine) == 1)
        if len(mine) != 1:
            return
        m, pdu, buf, hdr = mine[0]
        E.prove('result:decoded-from-bytes-received-in-this-call(stale-buffer-discarded)', L.Or(L.length(stale) == 0, True) if buf is not None else False)
        if kind == 'socket':
            E.prove('result:same-transaction-id', E.get(m, 'transaction_id') == req.transaction_id, finding='C08-F1', region=E.get(m, 'transaction_id') != req.transaction_id)
        else:
            E.prove('result:same-unit-id', E.get(m, 'unit_id') == uid, finding='C08-F3', region=L.Or(uid == 0, uid == 255))
        fc = E.get(m, 'function_code')
        E.prove('result:function-code-is-the-requests-or-that|0x80', L.Or(fc == 3, fc == 0x83), finding='C08-F2', region=L.And(fc != 3, fc != 0x83))
    return lemma


def get_units():
    us = []
    for kind in ('socket', 'rtu', 'ascii', 'binary'):
        us.append(Unit('%s/pairing.%s' % (PROP, kind), pairing(kind), [PROP], contracts=CS,
                       functions=[TMQ + '.execute', TMQ + '._transact', TMQ + '._recv', TMQ + '._send', TMQ + '.getNextTID', 'pymodbus.transaction.DictTransactionManager.addTransaction',
                                  'pymodbus.transaction.DictTransactionManager.getTransaction', F.QUAL[kind] + '.processIncomingPacket']))
    return us
