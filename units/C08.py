"""C08 - the synchronous client returns only the reply to its own request.

filter.<kind>   (real framer code, receive loop cut: every iteration of every call history) every message a framer hands to its callback
                carries the unit id that is on the wire, that unit id passed the unit filter (single, or 0 / 0xFF among the expected
                units, or equal to one of them) and, on TCP, carries the wire transaction / protocol id; an empty buffer plus an empty
                read delivers nothing.  This is the contract FramerDelivers (units/client.py) the pairing lemmas rely on.
pairing.<kind>  (real ModbusTransactionManager.execute / _transact / _recv, framer replaced by that contract, transport havoc'd, retry
                loop cut, any prior state: stale framer buffer, client state, tid counter incl. the wrap, a reply slot left over from
                an earlier call) the returned object is a ModbusIOException or a message delivered during THIS call, decoded with an
                empty framer buffer at hand-over (nothing received in an earlier call takes part), which carries the request's
                transaction id (TCP) / unit id (serial) and the request's function code or that | 0x80.
tid             getNextTID allocates (tid + 1) mod 65536."""
from pyvc.unit import Unit, LoopAnn
from pyvc import lang as L
from spec import pdu as P
from spec import checks as CK
from . import framers as F
from . import client as CL
from . import codec_contracts as K

TRUSTED = []
ASSUMPTIONS = ['transport abstracted: recv(n) returns any byte string of length <= n (any length when n is None); send accepts the frame; connect succeeds or not',
               'decoder abstracted: any non-empty PDU yields a message whose function code is the first PDU byte (C01/C02 decide what decodes)',
               'request frame construction (buildPacket) and the RTU inter-frame waiting in sendPacket / recvPacket are abstracted in the pairing lemmas (C03 / not part of pairing)',
               'the call-site abstractions FramerDelivers and TransactAny (units/client.py) are hand-written; what they assume is what the lemma units C08/filter.<kind>, C08/quiet.<kind> and C08/transact.<kind> prove on the real code in this same run - the correspondence between abstraction and lemma clauses is by inspection, not mechanised',
               'computeCRC / computeLRC contracts are verified against their bodies in the C03 and C07 checks, not in this one',
               'number of deliveries per processIncomingPacket call split 0 / 1 / 2 / 1-then-raise at the call site (the client callback stores under one key: longer sequences leave the same state)']
PROP = 'C08'
CS = (K.ComputeCRC(), K.ComputeLRC())
TMQ = CL.TMQ


# --------------------------------------------------------------------------- filter lemmas (real framers)
def wire_ids(kind, buf):
    """(unit id, transaction id, protocol id) of the frame at the head of the buffer, read from the wire bytes per the framing spec"""
    if kind == 'socket':
        return L.at(buf, 6), P.u16_at(buf, 0), P.u16_at(buf, 2)
    if kind == 'rtu':
        return L.at(buf, 0), None, None
    if kind == 'binary':
        return L.at(buf, 1), None, None
    return CK.hexval(L.at(buf, 1)) * 16 + CK.hexval(L.at(buf, 2)), None, None


def filter_lemma(kind):
    def lemma(E):
        rec = F.Rec()
        osz = E.int('oracle_size', 4, 70000) if kind == 'rtu' else None
        f = F.arbitrary_framer(E, kind, rec, outcomes=('message', 'none', 'raises'), size_of=lambda fc, buf: osz)
        unit0 = E.int('unit0', 0, 256)
        single = E.bool('single')

        def on_deliver(msg, pdu, buf, hdr):
            if pdu is None:
                E.prove('filter:delivered-message-came-from-the-decoder', False)
                return
            uid, tid, pid = wire_ids(kind, buf)
            short = L.Or(L.length(buf) <= 7, P.u16_at(buf, 4) < 2) if kind == 'socket' else False      # C07-F1: the socket framer's error path
            fk = {'finding': 'C08-F4', 'region': short} if kind == 'socket' else {}
            E.prove('filter:message-carries-the-wire-unit-id', E.get(msg, 'unit_id') == uid, **fk)
            E.prove('filter:wire-unit-id-passed-the-unit-filter', L.Or(L.truth(single), unit0 == 0, unit0 == 255, uid == unit0), **fk)
            if kind == 'socket':
                E.prove('filter:message-carries-the-wire-transaction-and-protocol-id', L.And(E.get(msg, 'transaction_id') == tid, E.get(msg, 'protocol_id') == pid), **fk)
        cb = E.callback(F.callback(E, rec, on_deliver), 'callback')
        E.attempt(lambda: E.method(f, 'processIncomingPacket', b'', cb, unit0, single=single), allow_cut=True)
        E.prove('filter:reached', True)
    return lemma


def quiet_lemma(kind):
    """a framer with an empty buffer that is handed an empty read delivers nothing and raises nothing"""
    def lemma(E):
        rec = F.Rec()
        f = F.arbitrary_framer(E, kind, rec, outcomes=('message',), size_of=lambda fc, buf: 4)
        E.set(f, '_buffer', b'')
        cb = E.callback(F.callback(E, rec), 'callback')
        out = E.attempt(lambda: E.method(f, 'processIncomingPacket', b'', cb, E.int('unit0', 0, 256), single=E.bool('single')))
        E.prove('quiet:no-exception', out.ok)
        E.prove('quiet:nothing-delivered', len(rec.delivered) == 0)
    return lemma


# --------------------------------------------------------------------------- pairing lemma (real transaction manager)
def _set_local(view, name, value):
    object.__getattribute__(view, '_fr').env[name] = value


def retry_ann(ghost):
    ann = LoopAnn('retry', lambda v, j: True)

    def havoc(v):
        # the loop is left by break (state of that iteration) or when the retry budget is used up: then `response` holds what an
        # earlier iteration's _transact returned - arbitrary bytes
        r = CL._fresh_bytes(v.E, 'response_of_an_earlier_iteration', 0, 600)
        ghost['earlier'] = r
        _set_local(v, 'response', r)
        _set_local(v, 'last_exception', v.E.opaque('transport-error-or-None'))      # only ever used as the text of the error object
        if not object.__getattribute__(v, '_exit_path'):
            # execute only asks whether THIS request's unit is in the list and appends / removes that unit: the list is abstracted by
            # that one bit (it is not read after the loop)
            silent = v.E.st.branch(2, 'unit-in-no-response-list')
            v.E.set(v.self, '_no_response_devices', [v.request.unit_id] if silent else [])
    ann.havoc = havoc
    ann.exit_any = True          # what follows the loop is examined once, from any `response`; an iteration that breaks adds nothing
    return ann


def pairing(kind, udp=False, tcp=False):
    def lemma(E):
        wire, rec = CL.Wire(), F.Rec()

        def transport(i, size):
            d = E.bytes('rx%d' % i, 0, 300)
            if size is None:
                return d
            if E.mode == 'symbolic':
                E.assume(L.length(d) <= size)
                return d
            return d[:max(size, 0)]
        retries = E.int('retries', 0, 4)
        client, tm, f = CL.make_client(E, kind, wire, rec, retries, E.bool('retry_on_empty'), E.bool('retry_on_invalid'), transport, udp=udp, tcp=tcp)
        # left in the framer by an earlier transaction: nothing, or some bytes (their number does not matter to execute: it only tests for emptiness)
        stale = E.bytes_n('stale_buffer', 5) if E.choice('stale_bytes_in_framer', [False, True]) else b''
        E.set(f, '_buffer', stale)
        req, uid, n = CL.request(E)
        # prior state: the tid counter (incl. the wrap to 0) and a reply slot left over from an earlier call (an exception after a delivery
        # leaves one, filed under that call's id)
        scenario = E.choice('history', ['fresh', 'wrap', 'left-over-slot', 'left-over-slot-under-0'])
        E.set(tm, 'tid', {'fresh': 7, 'wrap': 65535, 'left-over-slot': 7, 'left-over-slot-under-0': 0}[scenario])
        old_tid = tm.tid
        new_tid = (old_tid + 1) % 65536
        history = 'none' if scenario in ('fresh', 'wrap') else scenario
        stale_msg = E.obj('pymodbus.pdu.ModbusResponse', transaction_id=old_tid, protocol_id=0, unit_id=E.int('stale_unit', 0, 256), skip_encode=False, check=0, function_code=E.int('stale_fc', 1, 256))
        if history != 'none':
            E.set(tm, 'transactions', {old_tid: stale_msg})
        out = E.attempt(lambda: E.method(tm, 'execute', req), allow_cut=True)
        if out.cut:
            return
        if not out.ok:
            E.prove('pairing:reached(raises: C13)', True)
            return
        r = out.value
        E.prove('tid:allocated-as-previous+1-mod-65536', tm.tid == new_tid)
        key = req.transaction_id          # the reply slot key (RTU: buildPacket has replaced it by the unit id)
        if E.classname(r) == 'ModbusIOException':
            E.prove('result:error-object', True)
            return
        if isinstance(r, (bytes, bytearray)) or (hasattr(r, 'kind') and not hasattr(r, 'cls')):
            E.prove('result:broadcast-note-only-for-a-broadcast', L.And(L.truth(client.broadcast_enable), uid == 0))
            return
        left = {'finding': 'C08-F5', 'region': history != 'none'}
        E.prove('result:is-an-error-object-or-a-message', r is not None, **left)
        if r is None:
            return
        mine = [d for d in rec.decoded if d[3] is r]
        E.prove('result:is-a-message-delivered-during-this-call', len(mine) == 1, **left)
        if len(mine) != 1:
            return
        if E.mode == 'symbolic':
            for data, buflen in wire.handed:
                E.prove('result:nothing-buffered-before-this-call-takes-part-in-decoding', buflen == 0)
        else:
            # the real framer: the buffer the decoder saw starts at what this call received (the stale bytes were discarded)
            rx = b''.join(bytes(d) for (sz, d) in wire.reads)
            E.prove('result:nothing-buffered-before-this-call-takes-part-in-decoding', len(stale) == 0 or not bytes(mine[0][1]).startswith(bytes(stale)) or rx.startswith(bytes(stale)))
        # "decoded from bytes received during that call": the message handed out leaves the manager - a reply slot that kept it would hand
        # it out again to a later call that receives nothing under the same key (RTU: the unit id; TCP: the id after a wrap)
        tx = E.get(tm, 'transactions')
        E.prove('result:the-message-handed-out-is-not-kept-in-a-reply-slot', not any(v is r for v in list(tx.values())))
        m, hdr = mine[0][3], mine[0][2]
        if kind == 'socket':
            wtid = hdr['tid']
            E.prove('result:carries-the-requests-transaction-id', wtid == new_tid, finding='C08-F1', region=wtid != new_tid)
        else:
            wuid = hdr['uid']
            E.prove('result:carries-the-requests-unit-id', wuid == uid, finding='C08-F3', region=L.Or(uid == 0, uid == 255))
        fc = E.get(m, 'function_code')
        E.prove('result:function-code-is-the-requests-or-that|0x80', L.Or(fc == 3, fc == 0x83), finding='C08-F2', region=L.And(fc != 3, fc != 0x83))
    return lemma


def transact_lemma(kind):
    """real _transact with a havoc'd transport: a pair (bytes, exception-or-None) comes back; the framer's buffer and header, the reply slots
    and the request's unit id are untouched; the request's transaction id is untouched except on RTU (buildPacket sets it to the unit id)"""
    def lemma(E):
        wire, rec = CL.Wire(), F.Rec()

        def transport(i, size):
            k = E.choice('read%d' % i, ['data', 'OSError', 'socket.timeout']) if i < 2 else 'data'
            if k != 'data':
                raise E.Raised(k)
            d = E.bytes('rx%d' % i, 0, 300)
            if size is None:
                return d
            if E.mode == 'symbolic':
                E.assume(L.length(d) <= size)
                return d
            return d[:max(size, 0)]
        client, tm, f = CL.make_client(E, kind, wire, rec, 0, False, False, transport)
        E.set(f, '_buffer', E.bytes_n('buffered', 3))
        marker = E.opaque('slot')
        E.set(tm, 'transactions', {5: marker})
        req, uid, n = CL.request(E)
        E.set(req, 'transaction_id', 8)
        hdr = dict(E.get(f, '_header'))
        buf = E.get(f, '_buffer')
        exp = E.int('expected_response_length', 4, 300) if E.choice('length_predicted', [True, False]) else None
        full = E.bool('full')
        out = E.attempt(lambda: E.method(tm, '_transact', req, exp, full=full, broadcast=False))
        if out.ok:
            r = out.value
            E.prove('transact:returns-(bytes,exception-or-None)', isinstance(r, tuple) and len(r) == 2)
            if isinstance(r, tuple) and len(r) == 2 and not full and len(wire.reads) >= 1:
                # a transaction that ends in silence closes the connection: the reply, should it still arrive, is then not
                # waiting in the socket for the next transaction to mistake for its own
                E.prove('transact:silence->connection-closed(a-late-reply-cannot-reach-the-next-transaction)',
                        L.Implies(L.length(wire.reads[0][1]) == 0, L.And(wire.closes >= 1, L.length(r[0]) == 0)))
            if E.mode == 'symbolic' and isinstance(r, tuple):
                E.prove('transact:what-it-returns-is-what-the-reads-of-this-call-returned-or-nothing',
                        L.Or(L.length(r[0]) == 0, L.eq(r[0], L.concat(*[d for (sz, d) in wire.reads]) if wire.reads else [])))
        E.prove('transact:framer-buffer-untouched', L.eq(E.get(f, '_buffer'), buf))
        E.prove('transact:framer-header-untouched', dict(E.get(f, '_header')) == hdr if E.mode != 'symbolic' else E.same_state(dict(E.get(f, '_header')), hdr))
        tx = E.get(tm, 'transactions')
        E.prove('transact:reply-slots-untouched', len(tx) == 1 and tx.get(5) is marker)
        E.prove('transact:request-unit-id-untouched', req.unit_id == uid)
        E.prove('transact:request-transaction-id-untouched(rtu: replaced by the unit id)', req.transaction_id == (uid if kind == 'rtu' else 8))
    return lemma


def serial_flush_lemma(E):
    """serial clients: whatever is waiting in the port's receive buffer when a request is about to be written - a late reply to an earlier,
    timed-out transaction - is read and thrown away first, for every serial framing (rtu, ascii, binary): such bytes can then not be taken for
    the reply to the new request.  (TCP: the framer buffer is reset by execute - pairing lemmas; the socket has no such backlog contract.)"""
    method = E.choice('method', ['rtu', 'ascii', 'binary'])
    waiting = E.int('bytes_waiting', 0, 2000)
    log = []

    def read(k):
        log.append(('read', k))
        return E.bytes('stale', 0, 2000)

    def write(data):
        log.append(('write', data))
        return L.length(data)
    sock = E.stub('serial-port', {'read': read, 'write': write}, attrs={'in_waiting': waiting})
    req = E.bytes('request_frame', 1, 260)
    cl = E.obj('pymodbus.client.sync.ModbusSerialClient', socket=sock, method=method, timeout=1, state=0, silent_interval=0, last_frame_end=None, framer=None, transaction=None)
    out = E.attempt(lambda: E.method(cl, '_send', req))
    E.prove('serial:send-does-not-raise', out.ok)
    if not out.ok:
        return
    writes = [i for i, x in enumerate(log) if x[0] == 'write']
    reads = [i for i, x in enumerate(log) if x[0] == 'read']
    E.prove('serial:the-request-is-written-once', L.eq(log[writes[0]][1], req) if len(writes) == 1 else False)
    E.prove('serial:bytes-waiting-in-the-port-are-discarded-before-the-request-is-written',
            L.Implies(waiting > 0, len(reads) == 1 and (not writes or reads[0] < writes[0]) and (log[reads[0]][1] == waiting if reads else False)))
    E.prove('serial:returns-the-number-of-bytes-written', out.value == L.length(req))


def tid_lemma(E):
    tm = E.obj(CL.TM, transactions={}, tid=E.int('tid', 0, 65536), client=None)
    old = tm.tid
    got = E.method(tm, 'getNextTID')
    E.prove('tid:next==(previous+1) mod 65536', L.And(got == (old + 1) % 65536, tm.tid == got))


# --------------------------------------------------------------------------- twin: real reply frames, right and wrong
MIN = {'socket': 8, 'rtu': 2, 'ascii': 5, 'binary': 3}


def pairing_twin(kind):
    def make(g):
        r = g.r
        uid = r.choice([1, 1, 17, 0, 255, 200])
        count = r.choice([1, 2, 5])
        hist = r.choice([0, 0, 1, 2, 3])
        new_tid = ([7, 65535, 7, 0][hist] + 1) % 65536
        what = r.choice(['own', 'own', 'own-exception', 'other-tid', 'other-unit', 'other-fc', 'garbage', 'nothing', 'short'])
        ruid, rtid, pdu = uid, new_tid, [3, 2 * count] + [r.randrange(256) for _ in range(2 * count)]
        if what == 'own-exception':
            pdu = [0x83, 2]
        elif what == 'other-tid':
            rtid = (new_tid + r.choice([1, 65535, 100])) % 65536
        elif what == 'other-unit':
            ruid = (uid + r.choice([1, 5])) % 248
        elif what == 'other-fc':
            pdu = [4, 2 * count] + [r.randrange(256) for _ in range(2 * count)]
        if kind == 'binary':
            pdu = [b if b not in (0x7B, 0x7D) else 0x11 for b in pdu]
        fr = F.concrete_frame(kind, ruid, pdu, rtid)
        if what == 'garbage':
            fr = [r.randrange(256) for _ in range(len(fr))]
        elif what == 'nothing':
            fr = []
        elif what == 'short':
            fr = fr[:r.randrange(1, len(fr))]
        m = MIN[kind]
        out = {'unit_id': uid, 'count': count, 'history': hist, 'rx0': {'items': fr[:m]}, 'rx1': {'items': fr[m:]}, 'rx2': {'items': fr[:m]}, 'rx3': {'items': fr[m:]},
               'retries': r.choice([0, 1, 3]),
               'stale_bytes_in_framer': r.choice([0, 0, 1]), 'client_state': r.choice([0, 1])}
        for k in range(5):
            out['stale_buffer[%d]' % k] = r.randrange(256)
        for k in range(6):
            out['oracle_size_%d' % k] = len(fr) if fr else 4
        return out
    return make


CLIENTS = 'pymodbus.client.sync.'


def manager_lemma(E):
    """the pairing lemmas are about a client whose replies are filed in a DictTransactionManager (one slot per transaction id: a second
    frame decoded in the same read replaces the first).  Every synchronous client, built by its real constructor with any framing,
    has exactly that manager, bound to that client"""
    which = E.choice('client', ['base', 'tcp', 'tcp+framer', 'udp', 'serial'])
    kind = E.choice('framing', ['socket', 'rtu', 'ascii', 'binary'])
    if which == 'base':
        c = E.new(CL.BASE, E.new(F.QUAL[kind], E.opaque('decoder')))
    elif which == 'tcp':
        c = E.new(CLIENTS + 'ModbusTcpClient')
    elif which == 'tcp+framer':
        c = E.new(CLIENTS + 'ModbusTcpClient', 'peer', 502, E.cls(F.QUAL[kind]))
    elif which == 'udp':
        c = E.new(CLIENTS + 'ModbusUdpClient')
    else:
        c = E.new(CLIENTS + 'ModbusSerialClient', method=kind if kind != 'socket' else 'rtu')
    tm = E.get(c, 'transaction')
    E.prove('manager:replies-are-filed-by-transaction-id(one-slot-per-id)', E.classname(tm) == 'DictTransactionManager')
    E.prove('manager:bound-to-this-client', E.get(tm, 'client') is c)
    E.prove('manager:no-reply-slot-to-begin-with', len(E.get(tm, 'transactions')) == 0)


def history_free(c):
    def lemma(E):
        from .C01 import fc_byte, CDEC
        v = c.view(E)
        pdu = E.as_bytes(L.concat([fc_byte(E, c, v)], c.wire(E, v)))
        dec = E.new(CDEC)
        first = E.attempt(lambda: E.method(dec, 'decode', pdu))
        kept = E.clone(first.value) if (first.ok and first.value is not None) else None       # what the caller was handed, as it was then
        second = E.attempt(lambda: E.method(dec, 'decode', pdu))
        E.prove('history:same-outcome', (first.ok == second.ok) and ((first.value is None) == (second.value is None) if first.ok else True))
        if first.ok and second.ok and first.value is not None and second.value is not None and E.classname(first.value) == c.name == E.classname(second.value):
            E.prove('history:the-second-decode-of-the-same-bytes-gives-the-same-fields', c.same(E, c.read(E, kept), c.read(E, second.value)))
            E.prove('history:a-later-decode-does-not-reach-into-the-message-handed-out-earlier', c.same(E, c.read(E, kept), c.read(E, first.value)))
    return lemma


def get_units():
    us = [Unit('%s/manager' % PROP, manager_lemma, [PROP], functions=[CL.BASE + '.__init__', CLIENTS + 'ModbusTcpClient.__init__', CLIENTS + 'ModbusUdpClient.__init__',
                                                                   CLIENTS + 'ModbusSerialClient.__init__', TMQ + '.__init__'])]
    for kind in ('socket', 'rtu', 'ascii', 'binary'):
        fq = F.QUAL[kind]
        fl = Unit('%s/filter.%s' % (PROP, kind), filter_lemma(kind), [PROP], contracts=CS, loops=F.loop_anns(kind),
                  functions=[fq + '.processIncomingPacket', fq + '._process', fq + '.populateResult', 'pymodbus.framer.ModbusFramer._validate_unit_id'])
        us.append(fl)
        us.append(Unit('%s/quiet.%s' % (PROP, kind), quiet_lemma(kind), [PROP], contracts=CS, functions=[fq + '.processIncomingPacket']))
        us.append(Unit('%s/transact.%s' % (PROP, kind), transact_lemma(kind), [PROP], contracts=CS,
                       functions=[TMQ + '._transact', TMQ + '._recv', TMQ + '._send', fq + '.buildPacket', fq + '.sendPacket', fq + '.recvPacket']))
        ghost = {}
        cs = (CL.TransactAny(kind), CL.FramerDelivers(kind))
        # client classes: the base client (serial-style), the UDP-style client (socket framing), and the TCP client class carrying this framing
        # (plain Modbus/TCP for the socket framer, framer-over-TCP for the serial framings)
        for (udp, tcp) in ((False, False), (False, True)) + (((True, False),) if kind == 'socket' else ()):
            nm = '%s/pairing.%s%s' % (PROP, kind, '.udp' if udp else '.tcpclient' if tcp else '')
            us.append(Unit(nm, pairing(kind, udp, tcp), [PROP], contracts=cs, loops={(TMQ + '.execute', 0): retry_ann(ghost)}, twin=pairing_twin(kind),
                           functions=[TMQ + '.execute', TMQ + '._transact', TMQ + '._recv', TMQ + '._send', TMQ + '.getNextTID', CL.TM + '.addTransaction', CL.TM + '.getTransaction']))
    # "decoded from bytes received during that call ... for all histories of prior transactions": what the real client decoder makes of a
    # reply PDU does not depend on the replies it decoded before - the same bytes decoded a second time give the same fields (what
    # those fields are is C01/C02; the pairing lemmas abstract the decoder)
    from . import codecs as _C, C01 as _C01
    for c in _C.all_codecs():
        if c.direction != 'rsp':
            continue
        us.append(Unit('%s/decoder.history-free.%s' % (PROP, c.name), history_free(c), [PROP], contracts=_C01.CONTRACTS, loops=dict(c.loops), unroll=c.unroll, bounded=c.bounded,
                       functions=[c.cls + '.decode', c.cls + '.__init__', 'pymodbus.factory.ClientDecoder.decode']))
    us.append(Unit('%s/tid' % PROP, tid_lemma, [PROP], functions=[TMQ + '.getNextTID']))
    us.append(Unit('%s/serial.flush' % PROP, serial_flush_lemma, [PROP], functions=['pymodbus.client.sync.ModbusSerialClient._send', 'pymodbus.client.sync.ModbusSerialClient._in_waiting']))
    return us
