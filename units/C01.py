"""C01 - PDU wire format conforms to the Modbus application protocol.

For every class in the S-PDU table (units/codecs.py):
  encode lemma   for every valid view v: bytes([fc]) + K(v).encode() is byte for byte S-PDU[K](v)
  decode lemma   for every valid view v: Decoder.decode(bytes([fc]) + S-PDU[K](v)) is an instance of K carrying v
Decoder tables: the class chosen for a PDU (function code, diagnostic sub-function) is part of the decode lemma."""
from pyvc.unit import Unit
from pyvc import lang as L
from . import codecs as C
from . import codec_contracts as K

TRUSTED = ['S-PDU table (units/codecs.py) transcribed from MODBUS Application Protocol v1.1b3']
ASSUMPTIONS = ['file-record (FC 20/21) and device-identification response codecs: bounded units (<= 3 record groups / objects, loops unrolled), never counted as proved']

SDEC, CDEC = 'pymodbus.factory.ServerDecoder', 'pymodbus.factory.ClientDecoder'
CONTRACTS = (K.PackBitstring(), K.UnpackBitstring())


def instance(E, c, v):
    f = dict(C.BASE)
    f.update(c.extra_fields)
    f.update(c.fields(E, v))
    return E.obj(c.cls, **f)


def fc_byte(E, c, v):
    if c.fc is None:        # exception response: original function code | 0x80
        return v['original_code'] + 128
    return c.fc


def enc_lemma(c):
    def lemma(E):
        v = c.view(E)
        obj = instance(E, c, v)
        out = E.attempt(lambda: E.method(obj, 'encode'))
        if not out.ok:
            E.prove('encode:no-exception', False, raised=out.exc.cls)
            return
        E.prove('encode:function-code', E.get(obj, 'function_code') == fc_byte(E, c, v))
        E.prove('encode:bytes==S-PDU', L.eq(out.value, c.wire(E, v)), **c.fk('enc:bytes', v))
    return lemma


def dec_lemma(c):
    def lemma(E):
        v = c.view(E)
        pdu = E.as_bytes(L.concat([fc_byte(E, c, v)], c.wire(E, v)))
        dec = E.new(SDEC if c.direction == 'req' else CDEC)
        # "for all histories": the decoder has decoded a message of this class before (here: the same bytes) - what that left behind in
        # the decoder, the class or its defaults must not show in the message decoded next
        E.attempt(lambda: E.method(dec, 'decode', pdu))
        out = E.attempt(lambda: E.method(dec, 'decode', pdu))
        fk = c.fk('dec:exception', v)
        if not out.ok:
            E.prove('decode:no-exception', False, raised=out.exc.cls, **fk)
            return
        m = out.value
        if m is None:
            E.prove('decode:yields-a-message', False, **fk)
            return
        E.prove('decode:class-for-function-code', E.classname(m) == c.name)
        if E.classname(m) == c.name:
            c.check_same(E, 'decode:field==wire-value', c.read(E, m), v, 'dec')
    return lemma


def codec_units(prop, make, tag, codecs=None):
    us = []
    for c in (codecs or C.all_codecs()):
        if tag == 'acc' and isinstance(c, C.Empty):
            continue            # nothing is decoded
        loops = dict(c.loops)
        c.tag = tag
        u = Unit('%s/%s.%s' % (prop, tag, c.name), make(c), [prop], contracts=CONTRACTS, loops=loops, unroll=c.unroll, bounded=c.bounded,
                 functions=[c.cls + '.' + ('decode' if 'dec' in tag else 'encode')])
        us.append(u)
    return us


def get_units():
    us = codec_units('C01', enc_lemma, 'enc') + codec_units('C01', dec_lemma, 'dec')
    for k in CONTRACTS:
        us.append(k.unit())
    from . import lemmas as LM
    us += LM.lemma_units()
    # the 43/14 response is the one message whose encode() decides what fits: for object lists of any total size the bytes it emits are the
    # S-PAGE page (longest fitting prefix, more-follows, next object id), never more than 253 (the lemma C20/page.<m>objects; the
    # bounded codec above only covers lists that fit)
    from . import C20 as _C20
    for m in (1, 2, 3, 4):
        us.append(Unit('C01/page.%dobjects' % m, _C20.page_lemma(m), ['C01'], functions=[_C20.MEI + 'ReadDeviceInformationResponse.encode', _C20.MEI + 'ReadDeviceInformationResponse._encode_object']))
    return us
