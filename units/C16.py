"""C16 - the asynchronous (Twisted) client matches pipelined replies by transaction id.

Contracts on ModbusClientProtocol.execute / _handleResponse / connectionLost / _buildResponse and the two transaction
managers over the ghost map  pending: tid -> deferred  (= transaction.transactions).  Each operation is proved from an
ARBITRARY pending map of up to 3 other outstanding requests with symbolic, pairwise distinct transaction ids (an
operation touches one key; the entries it leaves alone are arbitrary - bounded in the NUMBER of other entries):
  execute          allocates tid' = (tid + 1) mod 65536, writes the frame carrying tid', stores the returned deferred
                   under tid', leaves every other entry alone; tid' is not among the pending ids (known finding: wrap)
  _handleResponse  fires exactly pending[reply.transaction_id] once with the reply and removes it; an id that is not
                   pending (unsolicited / duplicate) fires nothing and changes nothing
  connectionLost   fires the errback of every pending deferred exactly once with a connection error and empties the map;
                   afterwards execute returns an already failed deferred
Invariant carried by all of them: a deferred is in the map iff it was handed out and has not fired.
Deferred is external: callback/errback fire it once (ghost log)."""
from pyvc.unit import Unit
from pyvc import lang as L
from spec import adu as A

TRUSTED = ['twisted.internet.defer.Deferred: callback / errback fire the deferred (external); defer.fail returns an already failed deferred']
ASSUMPTIONS = ['bounded in the number of OTHER outstanding requests (0..3) with symbolic distinct ids; by symmetry of the untouched entries the step lemmas extend to any number',
               'a request message is abstracted (encode() returns some bytes)']
PROP = 'C16'
P = 'pymodbus.client.asynchronous.twisted.ModbusClientProtocol'
DTM, FTM = 'pymodbus.transaction.DictTransactionManager', 'pymodbus.transaction.FifoTransactionManager'
SOCKET = 'pymodbus.framer.socket_framer.ModbusSocketFramer'


class W:
    def __init__(self):
        self.probe = None     # optional: evaluated at the moment a deferred fires (what a callback that re-enters the protocol would see)
        self.seen = []        # probe results, one per firing
        self.fired = []       # (deferred name, 'callback' | 'errback', argument)
        self.written = []
        self.made = []


def deferred(E, w, name):
    if E.mode == 'symbolic':
        def fire(kind, arg):
            if w.probe is not None:
                w.seen.append(w.probe())
            w.fired.append((name, kind, arg))
        return E.stub('deferred:' + name, {'callback': lambda r: fire('callback', r), 'errback': lambda f: fire('errback', f)}, attrs={'name': name})
    from twisted.internet import defer
    d = defer.Deferred()
    d.name = name
    def fire(kind, arg):
        if w.probe is not None:
            w.seen.append(w.probe())
        w.fired.append((name, kind, arg))
    d.addCallbacks(lambda r: fire('callback', r), lambda f: fire('errback', f))
    return d


def ext_models(E, w):
    """symbolic stand-ins for the Twisted names the protocol uses"""
    if E.mode != 'symbolic':
        return {}

    def mk_deferred(I, args, kw):
        d = deferred(E, w, 'new%d' % len(w.made))
        w.made.append(d)
        return d

    def mk_fail(I, args, kw):
        d = E.stub('failed-deferred', {}, attrs={'failed_with': args[0]})
        w.made.append(d)
        return d
    return {'twisted.internet.defer.Deferred': mk_deferred, 'twisted.internet.defer.fail': mk_fail,
            'twisted.python.failure.Failure': lambda I, args, kw: E.stub('failure', {}, attrs={'value': args[0]})}


def protocol(E, w, npending, connected=True, fifo=False):
    if fifo:
        # serial variant: no id on the wire, pending deferreds queue up in arrival order
        ds = [deferred(E, w, 'p%d' % k) for k in range(npending)]
        tm = E.obj(FTM, transactions=list(ds), tid=E.int('tid_counter', 0, 65536), client=None)
        tr = E.stub('transport', {'write': lambda data: w.written.append(data)}, attrs={'close': None})
        framer = E.new(FRAMERS['rtu'], E.opaque('decoder'))
        return E.obj(P, _connected=connected, framer=framer, transaction=tm, transport=tr), tm, [], ds
    tids = [E.int('pending_tid%d' % k, 0, 65536) for k in range(npending)]
    for a in range(npending):
        for b in range(a + 1, npending):
            E.assume(tids[a] != tids[b])
    ds = [deferred(E, w, 'p%d' % k) for k in range(npending)]
    tm = E.obj(DTM, transactions=dict(zip(tids, ds)), tid=E.int('tid_counter', 0, 65536), client=None)
    tr = E.stub('transport', {'write': lambda data: w.written.append(data)}, attrs={'close': None})
    framer = E.new(SOCKET, E.opaque('decoder'))
    p = E.obj(P, _connected=connected, framer=framer, transaction=tm, transport=tr)
    return p, tm, tids, ds


def execute_lemma(n):
    def lemma(E):
        w = W()
        p, tm, tids, ds = protocol(E, w, n)
        old_tid = tm.tid
        payload = E.bytes('payload', 0, 250)
        uid, fc = E.int('uid', 0, 256), E.int('fc', 1, 128)
        # the request object may have been used before (a polling loop re-submits it) or carry an id its builder chose: whatever it holds,
        # execute gives it the next id of this connection
        req = E.obj('pymodbus.pdu.ModbusRequest', transaction_id=E.int('request_carries_tid', 0, 65536), protocol_id=0, unit_id=uid, skip_encode=False, check=0, function_code=fc,
                    encode=E.callback(lambda: payload, 'encode'))
        E.I.cfg.ext.update(ext_models(E, w)) if E.mode == 'symbolic' else None
        d = E.method(p, 'execute', req)
        new = (old_tid + 1) % 65536
        E.prove('execute:tid-is-previous+1-mod-65536', L.And(tm.tid == new, req.transaction_id == new))
        E.prove('execute:frame-carries-that-tid', L.And(len(w.written) == 1, L.eq(w.written[0], A.mbap(new, 0, uid, fc, payload))))
        clash = L.Or(*[t == new for t in tids]) if tids else False
        E.prove('execute:outstanding-requests-carry-distinct-ids', L.Not(clash), finding='C16-F1', region=clash)
        E.prove('execute:nothing-fires', len(w.fired) == 0)
        tx = tm.transactions
        E.prove('execute:returned-deferred-is-filed-under-its-tid', E.I.getitem(tx, new) is d if E.mode == 'symbolic' else tx.get(new) is d)
        for k in range(n):
            still = E.I.getitem(tx, tids[k]) if E.mode == 'symbolic' else tx.get(tids[k])
            E.prove('execute:other-pending-requests-untouched[%d]' % k, L.Implies(tids[k] != new, still is ds[k]) if (still is ds[k]) or E.mode == 'symbolic' else L.Implies(tids[k] != new, False),
                    finding='C16-F1', region=clash)
    return lemma


def handle_lemma(n):
    def lemma(E):
        w = W()
        p, tm, tids, ds = protocol(E, w, n)
        t = E.int('reply_tid', 0, 65536)
        reply = E.obj('pymodbus.pdu.ModbusResponse', transaction_id=t, protocol_id=0, unit_id=0, skip_encode=False, check=0, function_code=3)
        # _handleResponse is the callback the framer invokes from inside its receive loop: frames that arrived in the same segment are still
        # in the framer's buffer at this point, so "without disturbing pending requests" includes leaving the framer exactly as it is
        E.set(p.framer, '_buffer', E.bytes('frames_still_buffered', 0, 64))
        framer_before = E.clone(p.framer)
        E.method(p, '_handleResponse', reply)
        E.prove('reply:framer-(frames-still-buffered)-untouched', E.same_state(p.framer, framer_before, skip=('decoder', 'client')))
        E.prove('reply:connection-state-untouched', L.truth(p._connected))
        hit = [k for k in range(n)]
        if len(w.fired) == 0:
            E.prove('reply:nothing-fires-only-for-an-id-that-is-not-pending', L.And(*[tids[k] != t for k in range(n)]) if n else True)
            E.prove('reply:unsolicited-reply-leaves-the-map-alone', len(tm.transactions) == n)
        else:
            name, kind, arg = w.fired[0]
            k = int(name[1:])
            E.prove('reply:exactly-one-deferred-fires-once', len(w.fired) == 1)
            E.prove('reply:it-is-the-one-filed-under-the-reply-tid', L.And(tids[k] == t, kind == 'callback', arg is reply))
            E.prove('reply:it-is-removed,others-stay', len(tm.transactions) == n - 1)
    return lemma


def lost_lemma(n, fifo=False):
    def lemma(E):
        w = W()
        p, tm, tids, ds = protocol(E, w, n, fifo=fifo)
        E.I.cfg.ext.update(ext_models(E, w)) if E.mode == 'symbolic' else None
        # an errback may re-enter the protocol (the usual retry-on-failure handler): what it sees must already be a disconnected protocol,
        # or the request it issues is filed on a dead connection and never fails
        w.probe = lambda: E.get(p, '_connected')
        E.method(p, 'connectionLost', None)
        w.probe = None
        E.prove('lost:the-protocol-is-already-disconnected-when-the-pending-deferreds-are-failed', L.And(*[L.Not(L.truth(c)) for c in w.seen]) if w.seen else True)
        names = sorted(f[0] for f in w.fired)
        E.prove('lost:every-pending-deferred-fails-exactly-once', names == ['p%d' % k for k in range(n)] and all(f[1] == 'errback' for f in w.fired))
        for f in w.fired:
            exc = E.get(f[2], 'value')
            E.prove('lost:with-a-connection-error', E.classname(exc) == 'ConnectionException')
        E.prove('lost:map-emptied,disconnected', L.And(len(tm.transactions) == 0, L.Not(L.truth(p._connected))))
        payload = E.bytes('payload', 0, 16)
        req = E.obj('pymodbus.pdu.ModbusRequest', transaction_id=0, protocol_id=0, unit_id=1, skip_encode=False, check=0, function_code=3, encode=E.callback(lambda: payload, 'encode'))
        d = E.method(p, 'execute', req)
        if E.mode == 'symbolic':
            E.prove('lost:request-after-the-loss-fails-with-a-connection-error', L.And(E.has(d, 'failed_with'), len(tm.transactions) == 0)
                    and E.classname(E.get(E.get(d, 'failed_with'), 'value')) == 'ConnectionException')
        else:
            got = []
            d.addErrback(lambda f: got.append(type(f.value).__name__) and None)
            E.prove('lost:request-after-the-loss-fails-with-a-connection-error', got == ['ConnectionException'] and len(tm.transactions) == 0)
    return lemma


def next_tid(E):
    tm = E.obj(DTM, transactions={}, tid=E.int('tid', 0, 65536), client=None)
    old = tm.tid
    r = E.method(tm, 'getNextTID')
    E.prove('tid:16-bit,successor-with-wrap', L.And(r == (old + 1) % 65536, 0 <= r, r < 65536, tm.tid == r))


def fifo_lemma(n):
    """serial variant: replies are paired in arrival order"""
    def lemma(E):
        w = W()
        ds = [deferred(E, w, 'p%d' % k) for k in range(n)]
        tm = E.obj(FTM, transactions=list(ds), tid=E.int('tid_counter', 0, 65536), client=None)
        got = E.method(tm, 'getTransaction', E.int('any_tid', 0, 65536))
        if n == 0:
            E.prove('fifo:empty-queue-yields-nothing', got is None)
        else:
            E.prove('fifo:oldest-request-first', got is ds[0] and len(tm.transactions) == n - 1 and all(tm.transactions[i] is ds[i + 1] for i in range(n - 1)))
        d2 = deferred(E, w, 'new')
        E.method(tm, 'addTransaction', d2, E.int('tid2', 0, 65536))
        E.prove('fifo:new-request-queues-last', tm.transactions[-1] is d2)
    return lemma


FRAMERS = {'socket': SOCKET, 'rtu': 'pymodbus.framer.rtu_framer.ModbusRtuFramer', 'ascii': 'pymodbus.framer.ascii_framer.ModbusAsciiFramer',
           'binary': 'pymodbus.framer.binary_framer.ModbusBinaryFramer'}


def init_lemma(E):
    """the real constructor: however the framer is supplied - left out, as a class (what the client factory passes) or as an instance - the
    protocol ends up with a framer INSTANCE, and replies are matched by transaction id (DictTransactionManager) exactly when that framer
    carries one (MBAP / socket framer); the other framers, which have no id on the wire, get the arrival-order manager"""
    how = E.choice('framer_given_as', ['left-out', 'class', 'instance'])
    kind = E.choice('framer', sorted(FRAMERS))
    if how == 'left-out':
        p, kind = E.new(P), 'socket'
    elif how == 'class':
        p = E.new(P, E.cls(FRAMERS[kind]))
    else:
        p = E.new(P, E.new(FRAMERS[kind], E.new('pymodbus.factory.ClientDecoder')))
    E.prove('init:the-protocol-holds-a-framer-instance', E.isinstance(p.framer, FRAMERS[kind].split('.')[-1]))
    want = 'DictTransactionManager' if kind == 'socket' else 'FifoTransactionManager'
    E.prove('init:replies-are-matched-by-transaction-id-iff-the-framer-carries-one', E.classname(p.transaction) == want)
    E.prove('init:not-connected-yet', L.Not(L.truth(p._connected)))


def get_units():
    us = [Unit('%s/getNextTID' % PROP, next_tid, [PROP], functions=['pymodbus.transaction.ModbusTransactionManager.getNextTID']),
          Unit('%s/init' % PROP, init_lemma, [PROP], functions=[P + '.__init__', DTM + '.__init__', FTM + '.__init__'])]
    for n in (0, 1, 2, 3):
        us.append(Unit('%s/execute.%dpending' % (PROP, n), execute_lemma(n), [PROP], functions=[P + '.execute', P + '._buildResponse', DTM + '.addTransaction']))
        us.append(Unit('%s/reply.%dpending' % (PROP, n), handle_lemma(n), [PROP], functions=[P + '._handleResponse', DTM + '.getTransaction']))
        us.append(Unit('%s/connectionLost.%dpending' % (PROP, n), lost_lemma(n), [PROP], functions=[P + '.connectionLost', P + '._buildResponse']))
        from . import codec_contracts as K
        us.append(Unit('%s/connectionLost.fifo.%dpending' % (PROP, n), lost_lemma(n, fifo=True), [PROP], contracts=(K.ComputeCRC(),),
                       functions=[P + '.connectionLost', P + '._buildResponse', FTM + '.__iter__', FTM + '.getTransaction']))
        us.append(Unit('%s/fifo.%dpending' % (PROP, n), fifo_lemma(n), [PROP], functions=[FTM + '.getTransaction', FTM + '.addTransaction']))
    return us
