"""C20 - device identification is returned completely, in pages that fit.

get     DeviceInformationFactory.get(control, read_code, object_id): exactly the non-empty objects of the category
        (basic 0-2, regular 0-6, extended + 0x80..) from object_id onward, ascending, each with its exact value; the
        single object for individual access; the whole category when object_id is not populated
page    ReadDeviceInformationResponse.encode() for an ordered object list (ids ascending, values of any length): the
        longest prefix that keeps the PDU <= 253 bytes, more-follows / next-object-id as S-PAGE prescribes, exact bytes
chain   one step of the client's chain: if the first remaining object fits an empty page then the page is non-empty
        and the next request (next_object_id) yields exactly the remaining suffix - so by induction on the number of
        remaining objects the chain terminates and delivers every object exactly once
The number of objects per lemma is the category size for basic/regular (complete) and <= 3 extended objects (bounded)."""
from pyvc.unit import Unit
from pyvc import lang as L
from spec import page as PG
from . import codecs as C

TRUSTED = ['S-PAGE (spec/page.py) transcribed from MODBUS AP v1.1b3 section 6.21']
ASSUMPTIONS = ['identity values are byte strings (scalar objects)', 'extended category: lemmas cover identities with up to 3 populated extended objects (0x80, 0x81, 0xFF) - bounded in the number of extended objects']
PROP = 'C20'
DEV, MEI = 'pymodbus.device.', 'pymodbus.mei_message.'
STD = [0, 1, 2, 3, 4, 5, 6]
EXT = [0x80, 0x81, 0xFF]


def identity(E, ids, order='ascending'):
    """an identity whose objects `ids` hold arbitrary byte strings (possibly empty = not populated), all others empty; private objects
    (0x80..) are registered in the given order (the store is a dict: registration order is its iteration order)"""
    data = {k: b'' for k in range(9)}
    vals = {}
    ext = [k for k in ids if k >= 0x80]
    ext = {'ascending': ext, 'descending': ext[::-1], 'rotated': ext[1:] + ext[:1]}[order]
    for k in [k for k in ids if k < 0x80] + ext:
        vals[k] = E.bytes('obj%02x' % k, 0, 245)
        data[k] = vals[k]
    ident = E.obj(DEV + 'ModbusDeviceIdentification', _ModbusDeviceIdentification__data=data)
    ctl = E.obj(DEV + 'ModbusControlBlock', _ModbusControlBlock__identity=ident)
    return ctl, vals


def category(rc):
    return {1: [0, 1, 2], 2: STD, 3: STD + EXT}[rc]


def get_lemma(rc, order='ascending'):
    def lemma(E):
        ids = category(rc) if rc != 4 else STD + EXT
        # extended category: objects 0, 2, 6 and the extended objects 0x80, 0x81, 0xFF may be populated (bounded choice)
        ctl, vals = identity(E, STD if rc in (1, 2) else [0, 2, 6] + EXT, order)
        if rc in (3, 4):
            ids = [0, 2, 6] + EXT
        oid = E.choice('object_id', ids)
        got = E.call(DEV + 'DeviceInformationFactory.get', ctl, rc, oid)
        keys = list(got.keys())
        populated = lambda k: L.length(vals[k]) > 0
        if rc == 4:
            E.prove('get:individual-access-returns-that-object', L.And(len(keys) == 1, keys[0] == oid, L.eq(got[oid], vals[oid])))
            return
        E.prove('get:ascending-ids', all(keys[i] < keys[i + 1] for i in range(len(keys) - 1)))
        # required for a start id that is a populated object of the category, or 0 (for other start ids only the size
        # bound and termination are required: restart-at-first-object and an empty answer are both defensible)
        start_ok = L.Or(populated(oid), oid == 0) if oid in vals else (oid == 0)
        for k in ids:
            wanted = L.And(populated(k), k >= oid) if k in vals else False
            if k in keys:
                E.prove('get:only-populated-objects-of-the-category-from-object_id-on[%02x]' % k, L.Implies(start_ok, wanted))
                E.prove('get:exact-value[%02x]' % k, L.eq(got[k], vals[k]) if k in vals else False)
            else:
                E.prove('get:every-populated-object-from-object_id-on-is-returned[%02x]' % k, L.Implies(start_ok, L.Not(wanted)))
        E.prove('get:nothing-outside-the-category', all(k in ids for k in keys))
    return lemma


def response(E, m):
    """a response holding m objects with ascending ids and arbitrary non-empty values"""
    ids = [E.int('id%d' % i, 0, 256) for i in range(m)]
    for i in range(m - 1):
        E.assume(ids[i] < ids[i + 1])
    vals = [E.bytes('val%d' % i, 1, 245) for i in range(m)]
    info = {}
    for i in range(m):
        info[ids[i]] = vals[i]
    rc = E.int('read_code', 1, 5)
    r = E.obj(MEI + 'ReadDeviceInformationResponse', read_code=rc, information=info, number_of_objects=E.int('stale_count', 0, 256), conformity=0x83,
              next_object_id=0, more_follows=0, space_left=None, **C.BASE)
    return r, ids, vals, rc


def page_lemma(m):
    def lemma(E):
        r, ids, vals, rc = response(E, m)
        out = E.attempt(lambda: E.method(r, 'encode'))
        E.prove('page:encode-does-not-raise', out.ok)
        if not out.ok:
            return
        pdu = out.value
        sizes = [PG.obj_size(v) for v in vals]
        E.prove('page:pdu<=253-bytes', 1 + L.length(pdu) <= PG.MAX_PDU)
        big = L.Or(*[L.length(v) >= 245 for v in vals]) if vals else False
        for k in range(m + 1):
            # S-PAGE: exactly the longest prefix that fits is sent
            is_k = L.And(PG.fits(sizes, k), (k == m) or L.Not(PG.fits(sizes, k + 1)))
            more = 0xFF if k < m else 0x00
            nxt = ids[k] if k < m else 0
            want = L.concat([0x0E, rc, 0x83, more, nxt, k], PG.objects_bytes(ids, vals, k))
            E.prove('page:longest-fitting-prefix,more-follows,next-object-id[k=%d]' % k, L.Implies(is_k, L.eq(pdu, want)))
    return lemma


def chain_step(m):
    """progress + coverage of one step of the chain (m objects remain, first one fits an empty page)"""
    def lemma(E):
        r, ids, vals, rc = response(E, m)
        sizes = [PG.obj_size(v) for v in vals]
        # every object value of length 0..245 must fit an empty page, else the chain cannot make progress
        E.method(r, 'encode')
        E.prove('chain:head-object-fits-an-empty-page', E.get(r, 'number_of_objects') >= 1, finding='C20-F1', region=L.length(vals[0]) >= 245)
        E.assume(PG.fits(sizes, 1))
        k = E.get(r, 'number_of_objects')
        E.prove('chain:page-is-non-empty(progress)', k >= 1)
        more = E.get(r, 'more_follows')
        for j in range(1, m + 1):
            nxt_ok = L.And(more == 0xFF, E.get(r, 'next_object_id') == ids[j]) if j < m else (more == 0x00)
            E.prove('chain:next-request-starts-at-the-first-unsent-object[k=%d]' % j, L.Implies(k == j, nxt_ok))
    return lemma


def pure_lemma(m):
    def lemma(E):
        r, ids, vals, rc = response(E, m)
        first = E.method(r, 'encode')
        second = E.method(r, 'encode')
        E.prove('encode-twice-yields-identical-bytes', L.eq(first, second))
    return lemma


def execute_lemma(E):
    ctl_cls = 'pymodbus.mei_message.ReadDeviceInformationRequest'
    rc, oid = E.int('read_code', 0, 256), E.int('object_id', 0, 256)
    req = E.obj(ctl_cls, read_code=rc, object_id=oid, **C.BASE)
    if not (0 <= rc) or not (rc <= 4):
        resp = E.method(req, 'execute', None)
        E.prove('execute:read-code-out-of-range->03', L.And(E.classname(resp) == 'ExceptionResponse', resp.function_code == 43 + 128, resp.exception_code == 3))
    else:
        E.prove('execute:valid-read-code', True)


GOT = {}


def _factory_get(E, I, *args, **kw):
    # DeviceInformationFactory.get(control, read_code, object_id) is decided by the get.* lemmas; here only what execute hands to it and does with its answer
    a = list(args)
    if len(a) == 4:
        a = a[1:]          # classmethod called through the class: cls first
    GOT['args'] = a
    GOT['answer'] = {0x00: b'answer'}
    return GOT['answer']


def execute_valid_lemma(E):
    """every request with a read code 1..4 and ANY object id 0..255 (0xFF included) is answered with the factory's objects for exactly that read code and object id"""
    from .client import Custom
    rc, oid = E.int('read_code', 1, 5), E.int('object_id', 0, 256)
    req = E.obj('pymodbus.mei_message.ReadDeviceInformationRequest', read_code=rc, object_id=oid, **C.BASE)
    GOT.clear()
    out = E.attempt(lambda: E.method(req, 'execute', None))
    E.prove('execute:no-exception', out.ok)
    if not out.ok:
        return
    resp = out.value
    E.prove('execute:valid-request-is-answered-with-device-information', E.classname(resp) == 'ReadDeviceInformationResponse')
    if E.classname(resp) != 'ReadDeviceInformationResponse':
        return
    if E.mode == 'symbolic':
        E.prove('execute:asks-the-factory-for-that-read-code-and-object-id', 'args' in GOT and L.And(GOT['args'][1] == rc, GOT['args'][2] == oid))
        E.prove('execute:answers-with-what-the-factory-returned', resp.information is GOT.get('answer'))
    E.prove('execute:response-carries-the-read-code', resp.read_code == rc)


def configure_lemma(E):
    """"the configured objects": the identity a server answers from is what update() - the call the server front-ends and
    ModbusControlBlock().Identity.update(...) configure it with - last said, object by object: a value replaces the earlier one, a blank
    withdraws the object, objects not mentioned stay"""
    ident = E.new(DEV + 'ModbusDeviceIdentification', {0: 'vendor', 1: 'code', 3: 'url', 0x81: 'private'})
    E.method(ident, 'update', {1: '', 3: 'other-url', 4: 'name', 0x81: ''})
    get = lambda k: E.method(ident, '__getitem__', k)
    E.prove('configure:a-value-replaces-the-earlier-one', get(3) == 'other-url')
    E.prove('configure:a-blank-withdraws-the-object', get(1) == '' and get(0x81) == '')
    E.prove('configure:a-new-object-is-added', get(4) == 'name')
    E.prove('configure:objects-not-mentioned-stay', get(0) == 'vendor')
    E.method(ident, 'update', {0: '', 1: '', 3: '', 4: ''})         # leave the (class-level) table as it was found


def get_units():
    us = []
    us_cfg = Unit('%s/configure' % PROP, configure_lemma, [PROP], functions=[DEV + 'ModbusDeviceIdentification.update', DEV + 'ModbusDeviceIdentification.__init__'])
    us.append(us_cfg)
    for rc in (1, 2, 3, 4):
        us.append(Unit('%s/get.read_code%d' % (PROP, rc), get_lemma(rc), [PROP], functions=[DEV + 'DeviceInformationFactory.get', DEV + 'ModbusDeviceIdentification.__getitem__']))
        if rc == 3:
            # private objects registered in another order than ascending id: the answer must not depend on it
            for order in ('descending', 'rotated'):
                us.append(Unit('%s/get.read_code3.registered-%s' % (PROP, order), get_lemma(rc, order), [PROP],
                               functions=[DEV + 'DeviceInformationFactory.get', DEV + 'ModbusDeviceIdentification.__getitem__']))
    for m in range(0, 8):
        us.append(Unit('%s/page.%dobjects' % (PROP, m), page_lemma(m), [PROP], functions=[MEI + 'ReadDeviceInformationResponse.encode', MEI + 'ReadDeviceInformationResponse._encode_object']))
    for m in range(1, 8):
        us.append(Unit('%s/chain.%dremaining' % (PROP, m), chain_step(m), [PROP], functions=[MEI + 'ReadDeviceInformationResponse.encode']))
    for m in (1, 3):
        us.append(Unit('%s/pure.%dobjects' % (PROP, m), pure_lemma(m), ['C20', 'C02'], functions=[MEI + 'ReadDeviceInformationResponse.encode']))
    us.append(Unit('%s/execute' % PROP, execute_lemma, [PROP], functions=[MEI + 'ReadDeviceInformationRequest.execute']))
    from .client import Custom
    us.append(Unit('%s/execute.valid' % PROP, execute_valid_lemma, [PROP], contracts=(Custom(DEV + 'DeviceInformationFactory.get', _factory_get),),
                   functions=[MEI + 'ReadDeviceInformationRequest.execute']))
    return us
