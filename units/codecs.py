"""S-PDU table: for every supported (direction, function code[, sub-function]) the layout the MODBUS
Application Protocol v1.1b3 defines (section numbers in the comments), plus - per pymodbus class - the view
mapping between the spec fields and the attributes the class stores them in.  The table is the
specification; C01/C02 lemmas are generated from it (units/C01.py, units/C02.py).

A Codec describes one message class:
  view(E)          symbolic spec field values, constrained to the valid ranges of the specification
  wire(E, v)       the PDU data bytes (after the function code) the specification prescribes for v
  fields(E, v)     how the class stores v (attribute values of an instance holding v)
  read(E, obj)     the view read back from an instance (after decode)
  same(E, a, b)    equality of two views (bit lists up to zero padding to a byte boundary)
"""
from pyvc import lang as L
from pyvc.unit import LoopAnn
from spec import pdu as P

BR, BW = 'pymodbus.bit_read_message.', 'pymodbus.bit_write_message.'
RR, RW = 'pymodbus.register_read_message.', 'pymodbus.register_write_message.'
DG, OT, FM, MEI = 'pymodbus.diag_message.', 'pymodbus.other_message.', 'pymodbus.file_message.', 'pymodbus.mei_message.'
PDU = 'pymodbus.pdu.'

BASE = dict(transaction_id=0, protocol_id=0, unit_id=0, skip_encode=False, check=0)


class Codec:
    cls = None           # qualified class name
    fc = None
    sub = None           # diagnostic sub-function / MEI type
    direction = 'req'    # 'req' -> ServerDecoder, 'rsp' -> ClientDecoder
    loops = {}           # {(qualname, ordinal): LoopAnn}
    bounded = False      # True: loops are unrolled up to a stated bound (never counted as proved)
    unroll = {}
    findings = {}        # 'enc:bytes' | 'dec:<field>' | 'dec:exception' | 'rt:<field>' | 'pure' | 'acc:<field>' -> (finding id, region(v))
    extra_fields = {}    # attributes outside the view an instance carries (caches...)

    @property
    def name(self):
        return self.cls.split('.')[-1]

    def same(self, E, a, b):
        return L.And(*[L.eq(a[k], b[k]) for k in a])

    def fk(self, key, v):
        f = self.findings.get(key)
        return {'finding': f[0], 'region': f[1](v)} if f else {}

    decoded_fields = None      # view fields that decode() assigns (default: all)

    def check_same(self, E, label, got, want, kind='dec'):
        """obligation(s): the view `got` read from an instance equals the view `want`, field by field;
        sequences are compared pointwise at a fresh index (length + element obligations)"""
        for k in want:
            if kind == 'acc' and self.decoded_fields is not None and k not in self.decoded_fields:
                continue
            a, b = got[k], want[k]
            fk = self.fk('%s:%s' % (kind, k), want)
            if _isseq(a) and _isseq(b):
                E.prove('%s:%s:length' % (label, k), L.length(a) == L.length(b), **fk)
                E.prove_forall('%s:%s' % (label, k), 0, L.length(b), lambda j, a=a, b=b: self.eq_field(E, k, L.at(a, j), L.at(b, j)), **fk)
            else:
                E.prove('%s:%s' % (label, k), self.eq_field(E, k, a, b), **fk)

    def eq_field(self, E, k, a, b):
        if isinstance(a, bool) or isinstance(b, bool) or type(a).__name__ == 'SBool' or type(b).__name__ == 'SBool':
            return L.Iff(L.truth(a), L.truth(b))
        return L.eq(a, b)

    def prior(self, E):
        """an arbitrary earlier state of the instance (fields after some earlier decode)"""
        return self.fields(E, self.view(E, 'old_'))

    def ranges(self, E, obj):
        return True


def _isseq(x):
    return isinstance(x, (list, tuple, bytes)) or hasattr(x, 'kind')


def u16(E, name):
    return E.int(name, 0, 65536)


def u8(E, name):
    return E.int(name, 0, 256)


class Fixed(Codec):
    """fixed layout of big-endian H (16 bit) / B (8 bit) fields"""
    def __init__(self, cls, fc, direction, fmt, names, consts=None, sub=None):
        self.cls, self.fc, self.direction, self.fmt, self.names, self.sub = cls, fc, direction, fmt, names, sub
        self.consts = consts or {}

    def view(self, E, pfx=''):
        v = {}
        for ch, n in zip(self.fmt, self.names):
            if n in self.consts:
                v[n] = self.consts[n]
            else:
                v[n] = u16(E, pfx + n) if ch == 'H' else u8(E, pfx + n)
        return v

    def wire(self, E, v):
        parts = []
        for ch, n in zip(self.fmt, self.names):
            parts.append(P.be16(v[n]) if ch == 'H' else [v[n]])
        return L.concat(*parts) if parts else []

    def fields(self, E, v):
        return {n: v[n] for n in self.names}

    def read(self, E, obj):
        return {n: E.get(obj, n) for n in self.names}


# --------------------------------------------------------------------------- FC 1-4 (6.1 - 6.4)
class ReadReq(Fixed):
    def __init__(self, cls, fc):
        Fixed.__init__(self, cls, fc, 'req', 'HH', ['address', 'count'])


class BitsRsp(Codec):
    """byte count N = ceil(n/8), then the n status bits LSB first, zero padded (6.1, 6.2)"""
    direction = 'rsp'

    def __init__(self, cls, fc):
        self.cls, self.fc = cls, fc

    def view(self, E, pfx=''):
        return {'bits': E.bools(pfx + 'bits', 0, 2000)}

    def wire(self, E, v):
        packed = P.packed_bits(v['bits'])
        return L.concat([L.length(packed)], packed)

    def fields(self, E, v):
        return {'bits': v['bits']}

    def read(self, E, obj):
        return {'bits': E.get(obj, 'bits')}

    def check_same(self, E, label, got, want, kind='dec'):
        from . import lemmas as LM
        fk = self.fk('%s:bits' % kind, want)
        g, w = got['bits'], want['bits']
        n = L.length(w)
        # bit lists are compared up to zero padding to a byte boundary
        E.prove(label + ':padded-length', L.Or(L.length(g) == n, L.length(g) == 8 * ((n + 7) // 8)), **fk)
        E.prove_forall(label + ':bits', 0, L.length(g), lambda k: L.Iff(L.truth(L.at(g, k)), L.And(k < n, L.truth(L.at(w, k)))),
                       use=lambda k: [LM.packed_bit(E, w, k)], **fk)

    def same(self, E, a, b):
        # decoded bit lists are padded to a byte boundary: equal on the common prefix, the rest False
        x, y = a['bits'], b['bits']
        n, m = L.length(x), L.length(y)
        lo = L.minimum(n, m)
        return L.And(L.forall(0, lo, lambda k: L.Iff(L.at(x, k), L.at(y, k))),
                     L.forall(lo, n, lambda k: L.Not(L.truth(L.at(x, k)))), L.forall(lo, m, lambda k: L.Not(L.truth(L.at(y, k)))),
                     (n + 7) // 8 == (m + 7) // 8)


class RegsRsp(Codec):
    """byte count 2n, then n registers big-endian (6.3, 6.4, 6.17)"""
    direction = 'rsp'

    def __init__(self, cls, fc, base):
        self.cls, self.fc, self.base = cls, fc, base
        if base.endswith('ReadWriteMultipleRegistersResponse'):
            # decode() appends to the existing register list (the suite pins this in testRegisterReadResponseDecode)
            self.findings = {'acc:registers': ('C02-F4', lambda v: True)}
        self.loops = {
            (base + '.encode', 0): LoopAnn('regs', lambda v, j: L.And(
                L.length(v.result) == 1 + 2 * j, L.at(v.result, 0) == 2 * L.length(v.self.registers),
                L.forall(1, 1 + 2 * j, lambda k: L.at(v.result, k) == L.at(P.regs_bytes(v.self.registers), k - 1)))),
            (base + '.decode', 0): LoopAnn('regs', lambda v, j: L.And(
                L.length(v.self.registers) == v.n0 + j, L.length(v.data) >= 1 + 2 * j,
                L.forall(0, v.n0, lambda k: L.at(v.self.registers, k) == L.at(v.regs0, k)),
                L.forall(0, j, lambda k: L.at(v.self.registers, v.n0 + k) == P.u16_at(v.data, 1 + 2 * k))),
                entry=lambda v: {'n0': L.length(v.self.registers), 'regs0': L.slice_(v.self.registers, 0, None)}),
        }

    def view(self, E, pfx=''):
        return {'registers': E.ints(pfx + 'registers', 0, 65536, 0, 125)}

    def wire(self, E, v):
        return L.concat([2 * L.length(v['registers'])], P.regs_bytes(v['registers']))

    def fields(self, E, v):
        return {'registers': v['registers']}

    def read(self, E, obj):
        return {'registers': E.get(obj, 'registers')}


# --------------------------------------------------------------------------- FC 5, 6 (6.5, 6.6)
class CoilRW(Codec):
    """output address, output value 0xFF00 (ON) / 0x0000 (OFF)"""
    def __init__(self, cls, direction):
        self.cls, self.fc, self.direction = cls, 5, direction

    def view(self, E, pfx=''):
        return {'address': u16(E, pfx + 'address'), 'value': E.bool(pfx + 'value')}

    def wire(self, E, v):
        return L.concat(P.be16(v['address']), P.be16(L.ite(v['value'], 0xFF00, 0x0000)))

    def fields(self, E, v):
        return {'address': v['address'], 'value': v['value']}

    def read(self, E, obj):
        return {'address': E.get(obj, 'address'), 'value': L.truth(E.get(obj, 'value'))}

    def same(self, E, a, b):
        return L.And(L.eq(a['address'], b['address']), L.Iff(a['value'], b['value']))


# --------------------------------------------------------------------------- FC 15, 16 (6.11, 6.12)
class WriteCoilsReq(Codec):
    """address, quantity n, byte count ceil(n/8), packed bits"""
    direction, fc, cls = 'req', 15, BW + 'WriteMultipleCoilsRequest'

    def view(self, E, pfx=''):
        return {'address': u16(E, pfx + 'address'), 'values': E.bools(pfx + 'values', 1, 1968)}

    def wire(self, E, v):
        n = L.length(v['values'])
        return L.concat(P.be16(v['address']), P.be16(n), [(n + 7) // 8], P.packed_bits(v['values']))

    def fields(self, E, v):
        return {'address': v['address'], 'values': v['values'], 'byte_count': (L.length(v['values']) + 7) // 8}

    def read(self, E, obj):
        return {'address': E.get(obj, 'address'), 'values': E.get(obj, 'values')}

    def check_same(self, E, label, got, want, kind='dec'):
        from . import lemmas as LM
        fk = self.fk('%s:values' % kind, want)
        g, w = got['values'], want['values']
        E.prove(label + ':address,quantity', L.And(L.eq(got['address'], want['address']), L.length(g) == L.length(w)), **fk)
        E.prove_forall(label + ':bits', 0, L.length(w), lambda k: L.Iff(L.truth(L.at(g, k)), L.truth(L.at(w, k))),
                       use=lambda k: [LM.packed_bit(E, w, k)], **fk)

    def same(self, E, a, b):
        x, y = a['values'], b['values']
        return L.And(L.eq(a['address'], b['address']), L.length(x) == L.length(y), L.forall(0, L.length(x), lambda k: L.Iff(L.at(x, k), L.at(y, k))))


class WriteRegsReq(Codec):
    direction, fc, cls = 'req', 16, RW + 'WriteMultipleRegistersRequest'
    loops = {
        (RW + 'WriteMultipleRegistersRequest.encode', 0): LoopAnn('regs', lambda v, j: L.And(
            L.length(v.packet) == 5 + 2 * j,
            L.forall(0, 5, lambda k: L.at(v.packet, k) == L.at(L.concat(P.be16(v.self.address), P.be16(v.self.count), [v.self.byte_count]), k)),
            L.forall(5, 5 + 2 * j, lambda k: L.at(v.packet, k) == L.at(P.regs_bytes(v.self.values), k - 5)))),
        (RW + 'WriteMultipleRegistersRequest.decode', 0): LoopAnn('regs', lambda v, j: L.And(
            L.length(v.self.values) == j, L.length(v.data) >= 5 + 2 * j,
            L.forall(0, j, lambda k: L.at(v.self.values, k) == P.u16_at(v.data, 5 + 2 * k)))),
    }

    def view(self, E, pfx=''):
        return {'address': u16(E, pfx + 'address'), 'values': E.ints(pfx + 'values', 0, 65536, 1, 123)}

    def wire(self, E, v):
        n = L.length(v['values'])
        return L.concat(P.be16(v['address']), P.be16(n), [2 * n], P.regs_bytes(v['values']))

    def fields(self, E, v):
        n = L.length(v['values'])
        return {'address': v['address'], 'values': v['values'], 'count': n, 'byte_count': 2 * n}

    def read(self, E, obj):
        return {'address': E.get(obj, 'address'), 'values': E.get(obj, 'values')}


# --------------------------------------------------------------------------- FC 23 (6.17)
class RWMReq(Codec):
    direction, fc, cls = 'req', 23, RR + 'ReadWriteMultipleRegistersRequest'
    loops = {
        (RR + 'ReadWriteMultipleRegistersRequest.encode', 0): LoopAnn('regs', lambda v, j: L.And(
            L.length(v.result) == 9 + 2 * j,
            L.forall(0, 9, lambda k: L.at(v.result, k) == L.at(L.concat(P.be16(v.self.read_address), P.be16(v.self.read_count), P.be16(v.self.write_address),
                                                                         P.be16(v.self.write_count), [v.self.write_byte_count]), k)),
            L.forall(9, 9 + 2 * j, lambda k: L.at(v.result, k) == L.at(P.regs_bytes(v.self.write_registers), k - 9)))),
        (RR + 'ReadWriteMultipleRegistersRequest.decode', 0): LoopAnn('regs', lambda v, j: L.And(
            L.length(v.self.write_registers) == j, L.length(v.data) >= 9 + 2 * j,
            L.forall(0, j, lambda k: L.at(v.self.write_registers, k) == P.u16_at(v.data, 9 + 2 * k)))),
    }

    def view(self, E, pfx=''):
        return {'read_address': u16(E, pfx + 'read_address'), 'read_count': u16(E, pfx + 'read_count'), 'write_address': u16(E, pfx + 'write_address'),
                'write_registers': E.ints(pfx + 'write_registers', 0, 65536, 1, 121)}

    def wire(self, E, v):
        n = L.length(v['write_registers'])
        return L.concat(P.be16(v['read_address']), P.be16(v['read_count']), P.be16(v['write_address']), P.be16(n), [2 * n], P.regs_bytes(v['write_registers']))

    def fields(self, E, v):
        n = L.length(v['write_registers'])
        f = dict(v)
        f.update(write_count=n, write_byte_count=2 * n)
        return f

    def read(self, E, obj):
        return {k: E.get(obj, k) for k in ('read_address', 'read_count', 'write_address', 'write_registers')}


# --------------------------------------------------------------------------- FC 7, 11, 12, 17 (6.7, 6.9, 6.10, 6.13)
class Empty(Codec):
    def __init__(self, cls, fc):
        self.cls, self.fc, self.direction = cls, fc, 'req'

    def view(self, E, pfx=''):
        return {}

    def wire(self, E, v):
        return []

    def fields(self, E, v):
        return {}

    def read(self, E, obj):
        return {}

    def same(self, E, a, b):
        return True


class EventCounterRsp(Codec):
    """status word 0xFFFF while a command is still being processed / 0x0000 otherwise, event count (6.9)"""
    direction, fc, cls = 'rsp', 11, OT + 'GetCommEventCounterResponse'

    def view(self, E, pfx=''):
        return {'busy': E.bool(pfx + 'busy'), 'count': u16(E, pfx + 'count')}

    def wire(self, E, v):
        return L.concat(P.be16(L.ite(v['busy'], 0xFFFF, 0x0000)), P.be16(v['count']))

    def fields(self, E, v):
        return {'status': L.Not(v['busy']), 'count': v['count']}       # the class stores 'ready'

    def read(self, E, obj):
        return {'busy': L.Not(L.truth(E.get(obj, 'status'))), 'count': E.get(obj, 'count')}

    def same(self, E, a, b):
        return L.And(L.Iff(a['busy'], b['busy']), L.eq(a['count'], b['count']))


class EventLogRsp(Codec):
    """byte count 6+n, status, event count, message count, n event bytes (6.10)"""
    direction, fc, cls = 'rsp', 12, OT + 'GetCommEventLogResponse'
    loops = {
        (OT + 'GetCommEventLogResponse.decode', 0): LoopAnn('events', lambda v, j: L.And(
            L.length(v.self.events) == j, L.length(v.data) >= 7 + j,
            L.forall(0, j, lambda k: L.at(v.self.events, k) == L.at(v.data, 7 + k)))),
    }

    def view(self, E, pfx=''):
        return {'busy': E.bool(pfx + 'busy'), 'event_count': u16(E, pfx + 'event_count'), 'message_count': u16(E, pfx + 'message_count'),
                'events': E.ints(pfx + 'events', 0, 256, 0, 245)}      # C02: every list length that fits a 253-byte PDU (the specification stops at 64)

    def wire(self, E, v):
        return L.concat([6 + L.length(v['events'])], P.be16(L.ite(v['busy'], 0xFFFF, 0x0000)), P.be16(v['event_count']), P.be16(v['message_count']), v['events'])

    def fields(self, E, v):
        return {'status': L.Not(v['busy']), 'event_count': v['event_count'], 'message_count': v['message_count'], 'events': v['events']}

    def read(self, E, obj):
        return {'busy': L.Not(L.truth(E.get(obj, 'status'))), 'event_count': E.get(obj, 'event_count'), 'message_count': E.get(obj, 'message_count'),
                'events': E.get(obj, 'events')}

    def same(self, E, a, b):
        return L.And(L.Iff(a['busy'], b['busy']), L.eq(a['event_count'], b['event_count']), L.eq(a['message_count'], b['message_count']), L.eq(a['events'], b['events']))


class SlaveIdRsp(Codec):
    """byte count, slave id (device specific), run indicator 0x00 = OFF / 0xFF = ON (6.13)"""
    direction, fc, cls = 'rsp', 17, OT + 'ReportSlaveIdResponse'
    findings = {'dec:identifier': ('C01-F3', lambda v: True), 'rt:identifier': ('C02-F2', lambda v: True)}
    extra_fields = {'byte_count': None}

    def view(self, E, pfx=''):
        return {'identifier': E.bytes(pfx + 'identifier', 0, 250), 'status': E.bool(pfx + 'status')}

    def wire(self, E, v):
        return L.concat([L.length(v['identifier']) + 1], v['identifier'], [L.ite(v['status'], 0xFF, 0x00)])

    def fields(self, E, v):
        return {'identifier': v['identifier'], 'status': v['status']}

    def read(self, E, obj):
        return {'identifier': E.get(obj, 'identifier'), 'status': L.truth(E.get(obj, 'status'))}

    def same(self, E, a, b):
        return L.And(L.eq(a['identifier'], b['identifier']), L.Iff(a['status'], b['status']))


# --------------------------------------------------------------------------- FC 24 (6.18)
class FifoRsp(Codec):
    """byte count (2 + 2n), FIFO count n (<= 31), n registers"""
    direction, fc, cls = 'rsp', 24, FM + 'ReadFifoQueueResponse'
    findings = {'enc:bytes': ('C01-F1', lambda v: L.length(v['values']) >= 1),
                'dec:values': ('C01-F2', lambda v: L.length(v['values']) >= 1),
                'rt:values': ('C02-F1', lambda v: L.And(L.length(v['values']) >= 1, L.length(v['values']) != 4)),
                'rt:exception': ('C02-F1', lambda v: L.And(L.length(v['values']) >= 1, L.length(v['values']) != 4))}
    loops = {
        (FM + 'ReadFifoQueueResponse.encode', 0): LoopAnn('regs', lambda v, j: L.And(
            L.length(v.packet) == 4 + 2 * j,
            L.forall(0, 4, lambda k: L.at(v.packet, k) == L.at(L.concat(P.be16(2 + v.length), P.be16(v.length)), k)),
            L.forall(4, 4 + 2 * j, lambda k: L.at(v.packet, k) == L.at(P.regs_bytes(v.self.values), k - 4))), keep=('length',)),
        (FM + 'ReadFifoQueueResponse.decode', 0): LoopAnn('regs', lambda v, j: L.And(
            L.length(v.self.values) == j, L.length(v.data) >= 4 + 2 * j,
            L.forall(0, j, lambda k: L.at(v.self.values, k) == P.u16_at(v.data, 4 + 2 * k)))),
    }

    def view(self, E, pfx=''):
        return {'values': E.ints(pfx + 'values', 0, 65536, 0, 31)}

    def wire(self, E, v):
        n = L.length(v['values'])
        return L.concat(P.be16(2 + 2 * n), P.be16(n), P.regs_bytes(v['values']))

    def fields(self, E, v):
        return {'values': v['values']}

    def read(self, E, obj):
        return {'values': E.get(obj, 'values')}


# --------------------------------------------------------------------------- FC 8 diagnostics (6.8)
class DiagWords(Codec):
    """sub-function (2 bytes) followed by n data words.  The class keeps the data as int, list or tuple:
    the view is the sequence of 16-bit words"""
    fc = 8

    def __init__(self, cls, direction, sub, store='list', nmin=1, nmax=1):
        self.cls, self.direction, self.sub, self.store, self.nmin, self.nmax = cls, direction, sub, store, nmin, nmax
        if direction == 'req' and nmax > 1:
            self.findings = {'dec:exception': ('C01-F4', lambda v: L.length(v['words']) != 1), 'dec:words': ('C01-F4', lambda v: L.length(v['words']) != 1),
                             'rt:exception': ('C02-F3', lambda v: L.length(v['words']) != 1), 'rt:words': ('C02-F3', lambda v: L.length(v['words']) != 1)}
        base = DG + ('DiagnosticStatusRequest' if direction == 'req' else 'DiagnosticStatusResponse')
        self.loops = {
            (base + '.encode', 0): LoopAnn('words', lambda v, j: L.And(
                L.length(v.packet) == 2 + 2 * j, L.eq(L.slice_(v.packet, 0, 2), P.be16(v.self.sub_function_code)),
                L.forall(2, 2 + 2 * j, lambda k: L.at(v.packet, k) == L.at(P.regs_bytes(v.self.message), k - 2)))),
        }

    def view(self, E, pfx=''):
        if self.nmax == 1 and self.nmin == 1:
            return {'words': [u16(E, pfx + 'word')]}
        return {'words': E.ints(pfx + 'words', 0, 65536, self.nmin, self.nmax)}

    def wire(self, E, v):
        return L.concat(P.be16(self.sub), P.regs_bytes(v['words']))

    def fields(self, E, v):
        w = v['words']
        if self.store == 'int':
            return {'message': L.at(w, 0)}
        return {'message': w}

    def read(self, E, obj):
        m = E.get(obj, 'message')
        if isinstance(m, (int,)) or (not isinstance(m, (list, tuple, bytes)) and not hasattr(m, 'kind')):
            return {'words': [m], 'sub': E.get(obj, 'sub_function_code')}
        return {'words': m, 'sub': E.get(obj, 'sub_function_code')}

    def same(self, E, a, b):
        return L.eq(a['words'], b['words'])


# --------------------------------------------------------------------------- FC 43/14 request (6.21)
class DevInfoReq(Fixed):
    def __init__(self):
        Fixed.__init__(self, MEI + 'ReadDeviceInformationRequest', 43, 'req', 'BBB', ['sub_function_code', 'read_code', 'object_id'], consts={'sub_function_code': 14}, sub=14)

    def view(self, E, pfx=''):
        return {'sub_function_code': 14, 'read_code': E.int(pfx + 'read_code', 1, 5), 'object_id': u8(E, pfx + 'object_id')}


class ExceptionRsp(Codec):
    """function code | 0x80, exception code (section 7)"""
    direction, cls = 'rsp', PDU + 'ExceptionResponse'
    decoded_fields = ('exception_code',)

    def view(self, E, pfx=''):
        return {'original_code': E.int(pfx + 'original_code', 1, 128), 'exception_code': u8(E, pfx + 'exception_code')}

    def wire(self, E, v):
        return [v['exception_code']]

    def fields(self, E, v):
        return {'original_code': v['original_code'], 'function_code': v['original_code'] + 128, 'exception_code': v['exception_code']}

    def read(self, E, obj):
        return {'original_code': E.get(obj, 'original_code'), 'exception_code': E.get(obj, 'exception_code'), 'function_code': E.get(obj, 'function_code')}

    def same(self, E, a, b):
        return L.And(L.eq(a['original_code'], b['original_code']), L.eq(a['exception_code'], b['exception_code']))


def diag_table():
    """(sub-function, request class, response class, how the class stores the data word(s))"""
    rows = [
        (0, 'ReturnQueryData', 'list', 1, 125), (1, 'RestartCommunicationsOption', 'list', 1, 1), (2, 'ReturnDiagnosticRegister', 'int', 1, 1),
        (3, 'ChangeAsciiInputDelimiter', 'int', 1, 1), (4, 'ForceListenOnlyMode', 'int', 1, 1), (10, 'ClearCounters', 'int', 1, 1),
        (11, 'ReturnBusMessageCount', 'int', 1, 1), (12, 'ReturnBusCommunicationErrorCount', 'int', 1, 1), (13, 'ReturnBusExceptionErrorCount', 'int', 1, 1),
        (14, 'ReturnSlaveMessageCount', 'int', 1, 1), (15, 'ReturnSlaveNoResponseCount', 'int', 1, 1), (16, 'ReturnSlaveNAKCount', 'int', 1, 1),
        (17, 'ReturnSlaveBusyCount', 'int', 1, 1), (18, 'ReturnSlaveBusCharacterOverrunCount', 'int', 1, 1), (19, 'ReturnIopOverrunCount', 'int', 1, 1),
        (20, 'ClearOverrunCount', 'int', 1, 1), (21, 'GetClearModbusPlus', 'int', 1, 1),
    ]
    return rows


RSP_NAME_FIX = {'ReturnSlaveNoResponseCount': 'ReturnSlaveNoReponseCount'}      # (sic) class name in diag_message.py


# --------------------------------------------------------------------------- FC 20 / 21 file records (6.14, 6.15) - BOUNDED in the number of records
MAXREC = 3


class FileRecords(Codec):
    """groups of file records.  The number of records per message is bounded (0..MAXREC, the decode loops are unrolled); within the bound
    file numbers, record numbers and record data (any even length that fits the PDU) are arbitrary.
      6.14 request   byte count 7k | per group: 06, file number, record number, record length (registers)
      6.14 response  data length | per group: group length (1 + 2N), 06, N registers of data
      6.15 request and response (echo)   data length | per group: 06, file number, record number, N, N registers of data"""
    bounded = True

    def __init__(self, cls, fc, direction, layout):
        self.cls, self.fc, self.direction, self.layout = cls, fc, direction, layout
        q = cls + '.decode'
        self.unroll = {(q, 0): MAXREC + 1}
        if layout == 'read-rsp':
            # encode writes each group as (06, N registers) where 6.14 prescribes (group length 1 + 2N, 06); pinned by test_file_message.py
            some = lambda v: v['n'] >= 1
            self.findings = {'enc:bytes': ('C01-F5', some), 'rt:exception': ('C02-F5', some), 'rt:n': ('C02-F5', some)}
            for i in range(MAXREC + 1):
                for key in ('file', 'record', 'length', 'data'):
                    self.findings['rt:%s%d' % (key, i)] = ('C02-F5', some)

    def view(self, E, pfx=''):
        # the read response does not survive its own encode (C01-F5): its round trip is examined for one group only
        top = 1 if (self.layout == 'read-rsp' and getattr(self, 'tag', '') in ('rt', 'message')) else MAXREC
        k = E.choice(pfx + 'records', list(range(top + 1)))
        v = {'n': k}
        total = 0
        for i in range(k):
            if self.layout != 'read-rsp':
                v['file%d' % i], v['record%d' % i] = u16(E, pfx + 'file%d' % i), u16(E, pfx + 'record%d' % i)
            if self.layout == 'read-req':
                v['length%d' % i] = u16(E, pfx + 'length%d' % i)
                total += 7
            else:
                d = E.bytes(pfx + 'data%d' % i, 0, 250)
                E.assume(L.length(d) % 2 == 0)
                v['data%d' % i] = d
                total = total + L.length(d) + (2 if self.layout == 'read-rsp' else 7)
        E.assume(total <= 251)
        return v

    def wire(self, E, v):
        k = v['n']
        parts, total = [], 0
        for i in range(k):
            if self.layout == 'read-req':
                parts += [[0x06], P.be16(v['file%d' % i]), P.be16(v['record%d' % i]), P.be16(v['length%d' % i])]
                total += 7
            elif self.layout == 'read-rsp':
                n = L.length(v['data%d' % i])
                parts += [[1 + n, 0x06], v['data%d' % i]]
                total = total + 2 + n
            else:
                n = L.length(v['data%d' % i])
                parts += [[0x06], P.be16(v['file%d' % i]), P.be16(v['record%d' % i]), P.be16(n // 2), v['data%d' % i]]
                total = total + 7 + n
        return L.concat([total], *parts) if parts else [total]

    def fields(self, E, v):
        recs = []
        for i in range(v['n']):
            if self.layout == 'read-req':
                f = dict(file_number=v['file%d' % i], record_number=v['record%d' % i], record_length=v['length%d' % i], record_data=b'', response_length=1)
            else:
                d = v['data%d' % i]
                f = dict(file_number=v.get('file%d' % i, 0), record_number=v.get('record%d' % i, 0), record_data=E.as_bytes(L.tolist(d)),
                         record_length=L.length(d) // 2, response_length=L.length(d) + 1)
            recs.append(E.obj(FM + 'FileRecord', reference_type=0x06, **f))
        return {'records': recs}

    def read(self, E, obj):
        recs = list(E.get(obj, 'records'))
        out = {'n': len(recs)}
        for i in range(MAXREC + 1):
            r = recs[i] if i < len(recs) else None
            for key, attr in (('file', 'file_number'), ('record', 'record_number'), ('length', 'record_length'), ('data', 'record_data')):
                out['%s%d' % (key, i)] = E.get(r, attr) if r is not None else None
        return out

    def prior(self, E):
        return self.fields(E, self.view(E, 'old_'))


class DevInfoRsp(Codec):
    """43/14 response (6.21): MEI type 0E, read code, conformity, more follows, next object id, number of objects, then per object id, length, value.
    BOUNDED in the number of objects (0..MAXREC, decode loop unrolled); ids ascending, values of any length that fits.  How the server pages its
    objects (more follows / next object id as functions of the identity) is C20; here more/next are plain fields for decode, and 0 for encode."""
    direction, cls, fc, sub = 'rsp', MEI + 'ReadDeviceInformationResponse', 43, 14
    bounded = True

    def __init__(self):
        self.unroll = {(self.cls + '.decode', 0): MAXREC + 1, (self.cls + '.calculateRtuFrameSize', 0): MAXREC + 1}

    def view(self, E, pfx='', kmax=MAXREC):
        k = E.choice(pfx + 'objects', list(range(kmax + 1)))
        free = getattr(self, 'tag', '') in ('dec', 'acc')          # decode takes more/next from the wire; encode computes them (C20)
        v = {'read_code': E.int(pfx + 'read_code', 1, 5), 'conformity': u8(E, pfx + 'conformity'),
             'more_follows': (E.choice(pfx + 'more', [0x00, 0xFF]) if free else 0x00), 'next_object_id': (u8(E, pfx + 'next') if free else 0), 'n': k}
        total = 0
        same = [False]
        for i in range(k):
            # an object id may repeat (the class keeps the values of a repeated id in a list); values may be empty
            rep = bool(i) and E.choice(pfx + 'same_id_as_previous%d' % i, [False, True])
            same.append(rep) if i else None
            if rep:
                v['id%d' % i] = v['id%d' % (i - 1)]
            else:
                v['id%d' % i] = u8(E, pfx + 'id%d' % i)
                if i:
                    E.assume(v['id%d' % (i - 1)] < v['id%d' % i])
            d = E.bytes(pfx + 'val%d' % i, 0, 244)
            v['val%d' % i] = d
            total = total + 2 + L.length(d)
        E.assume(total <= 246)
        v['_total'] = total
        v['_same'] = same[:k]
        return v

    def wire(self, E, v):
        parts = [[0x0E, v['read_code'], v['conformity'], v['more_follows'], v['next_object_id'], v['n']]]
        for i in range(v['n']):
            parts += [[v['id%d' % i], L.length(v['val%d' % i])], v['val%d' % i]]
        return L.concat(*parts)

    def fields(self, E, v):
        info, last = {}, None
        for i in range(v['n']):
            val = E.as_bytes(L.tolist(v['val%d' % i]))
            if v['_same'][i]:
                info[last] = (info[last] if isinstance(info[last], list) else [info[last]]) + [val]
            else:
                last = v['id%d' % i]
                info[last] = val
        return {'sub_function_code': 0x0E, 'read_code': v['read_code'], 'information': info, 'number_of_objects': v['n'], 'conformity': v['conformity'],
                'next_object_id': v['next_object_id'], 'more_follows': v['more_follows'], 'space_left': 247 - v['_total']}

    def read(self, E, obj):
        info = E.get(obj, 'information')
        items = []
        for key, val in list(info.items()):
            if isinstance(val, list):
                items += [(key, x) for x in val]
            else:
                items.append((key, val))
        out = {'read_code': E.get(obj, 'read_code'), 'conformity': E.get(obj, 'conformity'), 'more_follows': E.get(obj, 'more_follows'),
               'next_object_id': E.get(obj, 'next_object_id'), 'n': len(items)}
        for i in range(MAXREC + 1):
            out['id%d' % i] = items[i][0] if i < len(items) else None
            out['val%d' % i] = items[i][1] if i < len(items) else None
        return out

    def check_same(self, E, label, got, want, kind='dec'):
        want = {k: x for k, x in want.items() if not k.startswith('_')}
        Codec.check_same(self, E, label, got, want, kind)

    def prior(self, E):
        return self.fields(E, self.view(E, 'old_', kmax=1))       # an earlier decode that left one object behind is enough to show that nothing survives


def all_codecs():
    cs = [
        ReadReq(BR + 'ReadCoilsRequest', 1), ReadReq(BR + 'ReadDiscreteInputsRequest', 2),
        ReadReq(RR + 'ReadHoldingRegistersRequest', 3), ReadReq(RR + 'ReadInputRegistersRequest', 4),
        BitsRsp(BR + 'ReadCoilsResponse', 1), BitsRsp(BR + 'ReadDiscreteInputsResponse', 2),
        RegsRsp(RR + 'ReadHoldingRegistersResponse', 3, RR + 'ReadRegistersResponseBase'), RegsRsp(RR + 'ReadInputRegistersResponse', 4, RR + 'ReadRegistersResponseBase'),
        CoilRW(BW + 'WriteSingleCoilRequest', 'req'), CoilRW(BW + 'WriteSingleCoilResponse', 'rsp'),
        Fixed(RW + 'WriteSingleRegisterRequest', 6, 'req', 'HH', ['address', 'value']), Fixed(RW + 'WriteSingleRegisterResponse', 6, 'rsp', 'HH', ['address', 'value']),
        WriteCoilsReq(), Fixed(BW + 'WriteMultipleCoilsResponse', 15, 'rsp', 'HH', ['address', 'count']),
        WriteRegsReq(), Fixed(RW + 'WriteMultipleRegistersResponse', 16, 'rsp', 'HH', ['address', 'count']),
        Fixed(RW + 'MaskWriteRegisterRequest', 22, 'req', 'HHH', ['address', 'and_mask', 'or_mask']),
        Fixed(RW + 'MaskWriteRegisterResponse', 22, 'rsp', 'HHH', ['address', 'and_mask', 'or_mask']),
        RWMReq(), RegsRsp(RR + 'ReadWriteMultipleRegistersResponse', 23, RR + 'ReadWriteMultipleRegistersResponse'),
        Empty(OT + 'ReadExceptionStatusRequest', 7), Fixed(OT + 'ReadExceptionStatusResponse', 7, 'rsp', 'B', ['status']),
        Empty(OT + 'GetCommEventCounterRequest', 11), EventCounterRsp(),
        Empty(OT + 'GetCommEventLogRequest', 12), EventLogRsp(),
        Empty(OT + 'ReportSlaveIdRequest', 17), SlaveIdRsp(),
        Fixed(FM + 'ReadFifoQueueRequest', 24, 'req', 'H', ['address']), FifoRsp(),
        DevInfoReq(), DevInfoRsp(), ExceptionRsp(),
        FileRecords(FM + 'ReadFileRecordRequest', 20, 'req', 'read-req'), FileRecords(FM + 'ReadFileRecordResponse', 20, 'rsp', 'read-rsp'),
        FileRecords(FM + 'WriteFileRecordRequest', 21, 'req', 'write'), FileRecords(FM + 'WriteFileRecordResponse', 21, 'rsp', 'write'),
    ]
    for sub, nm, store, nmin, nmax in diag_table():
        cs.append(DiagWords(DG + nm + 'Request', 'req', sub, store if nm != 'GetClearModbusPlus' else 'int', nmin, nmax))
        cs.append(DiagWords(DG + RSP_NAME_FIX.get(nm, nm) + 'Response', 'rsp', sub, store if nm != 'GetClearModbusPlus' else 'list', nmin, nmax if nm != 'GetClearModbusPlus' else 55))
    for c in cs:
        if isinstance(c, BitsRsp) or isinstance(c, WriteCoilsReq):
            pass
    return cs
