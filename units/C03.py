"""C03 - each transport framing builds the spec ADU and round-trips messages.

Build side: buildPacket of the five framers against S-ADU for an *arbitrary* message (abstracted by the
assumed contract 'encode() returns some byte string and touches no header field'), all unit ids, transaction
ids, protocol ids, function codes and payload bytes.  computeCRC / computeLRC are proved equal to the
bit-level S-CRC / S-LRC (contracts in codec_contracts.py: loop invariant over the uninterpreted fold, the
CRC table handled by a 256-way case split)."""
from pyvc.unit import Unit, FunctionContract
from pyvc import lang as L
from spec import adu as A
from spec import checks as CK
from . import codec_contracts as K

TRUSTED = ['S-ADU / S-CRC / S-LRC transcriptions of the Modbus serial-line and TCP specifications']
ASSUMPTIONS = ['message.encode() returns a byte string (<= 252 bytes) and does not change the header fields buildPacket reads (purity of encode: C02)',
               "hex text models: '%02x' % v and binascii.b2a_hex give two lower-case hex digits per byte (library model)"]

FR = 'pymodbus.framer.'
SOCKET, RTU, ASCII, BINARY, TLS = (FR + 'socket_framer.ModbusSocketFramer', FR + 'rtu_framer.ModbusRtuFramer', FR + 'ascii_framer.ModbusAsciiFramer',
                                   FR + 'binary_framer.ModbusBinaryFramer', FR + 'tls_framer.ModbusTlsFramer')


class AnyEncode(FunctionContract):
    """abstraction of every message class: encode() yields the (ghost) payload attached to the message"""
    qual = 'pymodbus.pdu.ModbusPDU.encode'
    assumed = True

    def spec(self, E, msg):
        return msg._payload


def any_message(E, maxlen=252):
    data = E.bytes('data', 0, maxlen)
    t, p, u, fc = E.int('tid', 0, 65536), E.int('pid', 0, 65536), E.int('uid', 0, 256), E.int('fc', 0, 256)
    if E.mode == 'symbolic':
        msg = E.obj('pymodbus.pdu.ModbusResponse', transaction_id=t, protocol_id=p, unit_id=u, function_code=fc, skip_encode=False, check=0, _payload=data)
    else:
        base = E.cls('pymodbus.pdu.ModbusResponse')
        cls = type('AnyMessage', (base,), {'encode': lambda self: self._payload})
        msg = cls.__new__(cls)
        msg.__dict__.update(transaction_id=t, protocol_id=p, unit_id=u, function_code=fc, skip_encode=False, check=0, _payload=data)
    return msg, data, t, p, u, fc


def framer(E, qual):
    dec = E.opaque('decoder')
    return E.new(qual, dec)


def build_socket(E):
    msg, data, t, p, u, fc = any_message(E)
    pkt = E.method(framer(E, SOCKET), 'buildPacket', msg)
    E.prove('mbap:tid,pid,len=|pdu|+1,uid,pdu', L.eq(pkt, A.mbap(t, p, u, fc, data)))


def build_tls(E):
    msg, data, t, p, u, fc = any_message(E)
    pkt = E.method(framer(E, TLS), 'buildPacket', msg)
    E.prove('tls:bare-pdu', L.eq(pkt, A.tls(fc, data)))


def build_rtu(E):
    msg, data, t, p, u, fc = any_message(E)
    pkt = E.method(framer(E, RTU), 'buildPacket', msg)
    E.prove('rtu:unit+pdu+crc-low-byte-first', L.eq(pkt, A.rtu(E, u, fc, data)))


def build_ascii(E):
    msg, data, t, p, u, fc = any_message(E)
    pkt = E.method(framer(E, ASCII), 'buildPacket', msg)
    E.prove("ascii:':'+upper-hex(unit,pdu,lrc)+CRLF", L.eq(pkt, A.ascii_(E, u, fc, data)))


def crc_range_closed(E):
    """justifies the range axiom of the crc16 fold: the initial value is a 16-bit value and the bit-level step maps
    (16-bit state, byte) to a 16-bit state"""
    s, b = E.int('state', 0, 65536), E.int('byte', 0, 256)
    r = CK.crc16_step(s, b)
    E.prove('crc16:step-closed-on-16-bit', L.And(0 <= r, r < 65536))
    E.prove('crc16:init-16-bit', L.And(0 <= 0xFFFF, 0xFFFF < 65536))


def get_units():
    cs = (AnyEncode(), K.ComputeCRC(), K.ComputeLRC())
    us = [
        Unit('C03/build.socket', build_socket, ['C03'], contracts=cs, functions=[SOCKET + '.buildPacket']),
        Unit('C03/build.tls', build_tls, ['C03'], contracts=cs, functions=[TLS + '.buildPacket']),
        Unit('C03/build.rtu', build_rtu, ['C03'], contracts=cs, functions=[RTU + '.buildPacket']),
        Unit('C03/build.ascii', build_ascii, ['C03'], contracts=cs, functions=[ASCII + '.buildPacket']),
    ]
    us.append(Unit('C03/crc16.fold_range', crc_range_closed, ['C03']))
    crc = K.ComputeCRC().unit()
    crc.shards = 16
    us += [crc, K.ComputeLRC().unit()]
    return us


# --------------------------------------------------------------------------- receive side: whole-frame round trip
from . import framers as F


def round_trip(kind):
    """buildPacket(m) handed, whole, to a FRESH receiver of the same framing delivers exactly one message: the one the decoder
    makes from exactly m's PDU (function code + data), with the unit id (where carried) and, on TCP, tid/pid preserved"""
    def lemma(E):
        msg, data, t, p, u, fc = any_message(E)
        rec = F.Rec()
        pkt_holder = []
        f = F.fresh_framer(E, kind, rec, outcomes=('message',), size_of=lambda fcode, buf: L.length(pkt_holder[0]))
        sender = framer(E, F.QUAL[kind])
        pkt = E.method(sender, 'buildPacket', msg)
        pkt_holder.append(pkt)
        fk = {}
        if kind == 'binary':
            # known finding: delimiter bytes in the payload are doubled by the sender and never un-doubled by the receiver;
            # a '}' inside unit, function code, payload or CRC ends the frame early
            body = L.concat([u, fc], data, CK.crc_bytes(E, L.concat([u, fc], data)))
            special = L.exists(0, L.length(body), lambda k: L.Or(L.at(body, k) == 0x7B, L.at(body, k) == 0x7D))
            fk = {'finding': 'C03-F1', 'region': special}
        cb = E.callback(F.callback(E, rec), 'callback')
        units = [u]
        # TLS frames carry no unit id: the receiver is used the way its own default does (single=True)
        out = E.attempt(lambda: E.method(f, 'processIncomingPacket', pkt, cb, units, single=(kind == 'tls')))
        E.prove('roundtrip:no-exception', out.ok, **fk)
        if not out.ok:
            return
        E.prove('roundtrip:exactly-one-message-delivered', len(rec.delivered) == 1, **fk)
        if len(rec.delivered) != 1:
            return
        m, pdu, buf, hdr = rec.delivered[0]
        E.prove('roundtrip:decoded-from-exactly-the-pdu', L.eq(pdu, L.concat([fc], data)), **fk)
        if kind != 'tls':
            E.prove('roundtrip:unit-id-preserved', E.get(m, 'unit_id') == u, **fk)
        if kind == 'socket':
            E.prove('roundtrip:transaction-and-protocol-id-preserved', L.And(E.get(m, 'transaction_id') == t, E.get(m, 'protocol_id') == p))
        E.prove('roundtrip:receiver-buffer-empty-afterwards', L.length(E.get(f, '_buffer')) == 0, **fk)
    return lemma


_units_build = get_units


def get_units():
    us = _units_build()
    cs = (AnyEncode(), K.ComputeCRC(), K.ComputeLRC())
    from .C14 import PreflightLen
    for kind in ('socket', 'tls', 'rtu', 'ascii', 'binary'):
        u = Unit('C03/roundtrip.%s' % kind, round_trip(kind), ['C03'], contracts=cs + ((PreflightLen(),) if kind == 'binary' else ()),
                 functions=[F.QUAL[kind] + '.' + m for m in ('buildPacket', 'processIncomingPacket', 'checkFrame', 'getFrame', 'populateResult', 'advanceFrame')])
        if kind in ('ascii', 'binary'):
            # bounded stand-in: the delimiter search (find) over hex text / escaped payload and the hex inverse are not discharged
            # by the solvers within budget; the round trip of these two framings is checked by the executable twin only
            u.concrete_only = True
            u.bounded = True
        us.append(u)
    return us


# --------------------------------------------------------------------------- RTU frame length oracle
from . import codecs as C


def oracle_lemma(c):
    """K.calculateRtuFrameSize(rtu frame of m) == len(rtu frame of m): the receiver learns the frame extent from the class"""
    def lemma(E):
        v = c.view(E)
        wire = c.wire(E, v)
        uid = E.int('uid', 0, 256)
        fcb = c.fc if c.fc is not None else v['original_code'] + 128
        frame = E.as_bytes(L.concat([uid, fcb], wire, [E.int('crc0', 0, 256), E.int('crc1', 0, 256)]))
        size = E.classcall(c.cls, 'calculateRtuFrameSize', frame)
        fk = c.fk('oracle', v)
        E.prove('oracle:size==length-of-the-rtu-frame', size == L.length(frame), **fk)
        E.prove('oracle:size>=4', size >= 4)
    return lemma


_units_rt = get_units


def get_units():
    us = _units_rt()
    for c in C.all_codecs():
        if isinstance(c, C.DiagWords) and c.nmax > 1:
            # diagnostic classes declare a constant frame size of 8: right only for exactly one data word
            c.findings = dict(c.findings)
            c.findings['oracle'] = ('C03-F2', lambda v: L.length(v['words']) != 1)
        us.append(Unit('C03/oracle.%s' % c.name, oracle_lemma(c), ['C03'], unroll=c.unroll, bounded=c.bounded, functions=['pymodbus.pdu.ModbusPDU.calculateRtuFrameSize', 'pymodbus.utilities.rtuFrameSize']))
    return us


# --------------------------------------------------------------------------- "... equal to the original": the decoder on exactly the PDU
# The round-trip lemmas above show the receiver hands the decoder exactly the PDU of m (function code + encode()).  That the
# message the decoder makes from those bytes equals m is the per-class lemma below: real encode, real ServerDecoder/ClientDecoder
# (function-code and sub-function lookup included), per message class of the S-PDU table.
REMAP = {'C02-F1': 'C03-F3', 'C02-F2': 'C03-F4', 'C02-F3': 'C03-F5', 'C02-F5': 'C03-F6'}
_units_oracle = get_units


def get_units():
    from .C01 import codec_units, CONTRACTS as CC
    from .C02 import rt_lemma
    from . import lemmas as LM
    us = _units_oracle()
    cs = []
    for c in C.all_codecs():
        c.findings = {k: (REMAP.get(f, f), r) for k, (f, r) in dict(c.findings).items()}
        cs.append(c)
    ms = codec_units('C03', rt_lemma, 'message', codecs=cs)
    for u in ms:
        u.functions = [u.functions[0].rsplit('.', 1)[0] + '.encode', u.functions[0].rsplit('.', 1)[0] + '.decode',
                       'pymodbus.factory.ServerDecoder._helper', 'pymodbus.factory.ClientDecoder._helper']
    have = set(u.name for u in us)
    for u in ms + [k.unit() for k in CC] + LM.lemma_units():
        if u.name not in have:
            have.add(u.name)
            us.append(u)
    return us
