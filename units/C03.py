"""C03 - each transport framing builds the spec ADU and round-trips messages.

Build side: buildPacket of the five framers against S-ADU for an *arbitrary* message (abstracted by the
assumed contract 'encode() returns some byte string and touches no header field'), all unit ids, transaction
ids, protocol ids, function codes and payload bytes.  computeCRC / computeLRC are proved equal to the
bit-level S-CRC / S-LRC (contracts in codec_contracts.py: loop invariant over the uninterpreted fold, the
CRC table handled by a 256-way case split)."""
from pyvc.unit import Unit, FunctionContract
from pyvc import lang as L
from spec import adu as A
from spec import checks as CK
from . import codec_contracts as K

TRUSTED = ['S-ADU / S-CRC / S-LRC transcriptions of the Modbus serial-line and TCP specifications']
ASSUMPTIONS = ['message.encode() returns a byte string (<= 252 bytes) and does not change the header fields buildPacket reads (purity of encode: C02)',
               "hex text models: '%02x' % v and binascii.b2a_hex give two lower-case hex digits per byte (library model)"]

FR = 'pymodbus.framer.'
SOCKET, RTU, ASCII, BINARY, TLS = (FR + 'socket_framer.ModbusSocketFramer', FR + 'rtu_framer.ModbusRtuFramer', FR + 'ascii_framer.ModbusAsciiFramer',
                                   FR + 'binary_framer.ModbusBinaryFramer', FR + 'tls_framer.ModbusTlsFramer')


class AnyEncode(FunctionContract):
    """abstraction of every message class: encode() yields the (ghost) payload attached to the message"""
    qual = 'pymodbus.pdu.ModbusPDU.encode'
    assumed = True

    def spec(self, E, msg):
        return msg._payload


def any_message(E, maxlen=252):
    data = E.bytes('data', 0, maxlen)
    t, p, u, fc = E.int('tid', 0, 65536), E.int('pid', 0, 65536), E.int('uid', 0, 256), E.int('fc', 0, 256)
    if E.mode == 'symbolic':
        msg = E.obj('pymodbus.pdu.ModbusResponse', transaction_id=t, protocol_id=p, unit_id=u, function_code=fc, skip_encode=False, check=0, _payload=data)
    else:
        base = E.cls('pymodbus.pdu.ModbusResponse')
        cls = type('AnyMessage', (base,), {'encode': lambda self: self._payload})
        msg = cls.__new__(cls)
        msg.__dict__.update(transaction_id=t, protocol_id=p, unit_id=u, function_code=fc, skip_encode=False, check=0, _payload=data)
    return msg, data, t, p, u, fc


def framer(E, qual):
    dec = E.opaque('decoder')
    return E.new(qual, dec)


def build_socket(E):
    msg, data, t, p, u, fc = any_message(E)
    pkt = E.method(framer(E, SOCKET), 'buildPacket', msg)
    E.prove('mbap:tid,pid,len=|pdu|+1,uid,pdu', L.eq(pkt, A.mbap(t, p, u, fc, data)))


def build_tls(E):
    msg, data, t, p, u, fc = any_message(E)
    pkt = E.method(framer(E, TLS), 'buildPacket', msg)
    E.prove('tls:bare-pdu', L.eq(pkt, A.tls(fc, data)))


def build_rtu(E):
    msg, data, t, p, u, fc = any_message(E)
    pkt = E.method(framer(E, RTU), 'buildPacket', msg)
    E.prove('rtu:unit+pdu+crc-low-byte-first', L.eq(pkt, A.rtu(E, u, fc, data)))


def build_ascii(E):
    msg, data, t, p, u, fc = any_message(E)
    pkt = E.method(framer(E, ASCII), 'buildPacket', msg)
    E.prove("ascii:':'+upper-hex(unit,pdu,lrc)+CRLF", L.eq(pkt, A.ascii_(E, u, fc, data)))


def crc_range_closed(E):
    """justifies the range axiom of the crc16 fold: the initial value is a 16-bit value and the bit-level step maps
    (16-bit state, byte) to a 16-bit state"""
    s, b = E.int('state', 0, 65536), E.int('byte', 0, 256)
    r = CK.crc16_step(s, b)
    E.prove('crc16:step-closed-on-16-bit', L.And(0 <= r, r < 65536))
    E.prove('crc16:init-16-bit', L.And(0 <= 0xFFFF, 0xFFFF < 65536))


def get_units():
    cs = (AnyEncode(), K.ComputeCRC(), K.ComputeLRC())
    us = [
        Unit('C03/build.socket', build_socket, ['C03'], contracts=cs, functions=[SOCKET + '.buildPacket']),
        Unit('C03/build.tls', build_tls, ['C03'], contracts=cs, functions=[TLS + '.buildPacket']),
        Unit('C03/build.rtu', build_rtu, ['C03'], contracts=cs, functions=[RTU + '.buildPacket']),
        Unit('C03/build.ascii', build_ascii, ['C03'], contracts=cs, functions=[ASCII + '.buildPacket']),
    ]
    us.append(Unit('C03/crc16.fold_range', crc_range_closed, ['C03']))
    crc = K.ComputeCRC().unit()
    crc.shards = 16
    us += [crc, K.ComputeLRC().unit()]
    return us
