"""C12 - no received byte sequence can crash a server or corrupt its data.

(a) serving loops: one iteration of every handle() loop, from an arbitrary loop state, with the transport returning
    arbitrary bytes or raising and the framer's processIncomingPacket raising *any* exception (so the proof does not
    depend on the framers being right): no exception escapes, and after an exception the connection is closed
    (running cleared) or the framer is reset - loop cut at the invariant, hence all iterations;
(b) execute(): no exception escapes and a datastore failure is mapped to exception 04 (serve lemmas, S-SERVE);
(c) datagram entry points of the Twisted front-end accept every datagram without raising;
(d) decode failures precede any store access: the callback (execute) is only reached after decoder.decode returned
    a message (framer _process; C07 gate units), so a PDU the decoder rejects cannot touch the datastore."""
from pyvc.unit import Unit, LoopAnn
from pyvc import lang as L
from . import serve as S

TRUSTED = []
ASSUMPTIONS = ['Twisted: an exception leaving dataReceived makes the reactor drop that connection and keep serving (documented reactor behaviour, external)',
               'asyncio: the event loop keeps running other connections when a handler task ends (external)',
               'only Exception subclasses (A8); the process is not in listen-only mode']
PROP = 'C12'

# what a framer / decoder may raise on hostile bytes (transport errors - OSError, socket.timeout - come from recv only)
EXCS = ['Exception', 'struct.error', 'IndexError', 'KeyError', 'TypeError', 'ValueError', 'ModbusIOException', 'InvalidMessageReceivedException', 'binascii.Error']
FRAMER_PIP = 'pymodbus.framer.socket_framer.ModbusSocketFramer.processIncomingPacket'


class Ghost:
    def __init__(self):
        self.raised = False     # an exception was raised by the transport / framer in this iteration
        self.framer_raised = False   # ... by the framer (processIncomingPacket)
        self.reset = False      # framer.resetFrame() was called in this iteration
        self.closed = False     # the transport was closed


def stub_framer(E, G):
    def pip(*args, **kw):
        E.check_args(FRAMER_PIP, args, kw)
        k = E.choice('framer_outcome', ['ok'] + EXCS)
        if k != 'ok':
            G.raised = True
            G.framer_raised = True
            raise E.Raised(k)
        return None

    def reset():
        G.reset = True
    return E.stub('framer', {'processIncomingPacket': pip, 'resetFrame': reset})


def context(E):
    return E.obj(S.CTX, single=E.bool('single'), _slaves={0: E.int('ctx', 1, None)})


def sync_loop(cls, tag='C12', fate=None):
    def lemma(E):
        G = Ghost()

        calls = [0]

        hist = []       # concrete runs: the state each completed iteration of the real loop left behind

        def recv(n):
            if calls[0] >= 1:
                hist.append((G.raised, G.framer_raised, G.reset, G.closed, bool(h.running)))
            G.raised, G.reset, G.framer_raised = False, False, False          # first action of an iteration
            calls[0] += 1
            if E.mode == 'concrete' and calls[0] > 3:   # the twin runs the real (endless) loop: stop it after three reads
                h.running = False
                return b''
            k = E.choice('recv_outcome', ['data', 'empty', 'socket.timeout', 'OSError', 'Exception'])
            if k == 'data':
                return E.bytes('chunk', 1, 1024)
            if k == 'empty':
                return b''
            G.raised = True
            raise E.Raised(k)
        sock = E.stub('socket', {'recv': recv})
        server = E.obj(S.SY + 'ModbusTcpServer', context=context(E), broadcast_enable=E.bool('broadcast_enable'), ignore_missing_slaves=False)
        if 'Disconnected' in cls:
            req = (E.bytes('datagram', 0, 1024), sock)
        else:
            req = sock
        h = E.obj(S.SY + cls, server=server, framer=stub_framer(E, G), request=req, socket=sock, client_address=('peer', 502), running=True)
        out = E.attempt(lambda: E.method(h, 'handle'), allow_cut=True)
        E.prove('%s:no-exception-escapes-the-serving-loop' % tag, out.ok)
        if E.mode != 'symbolic':
            if out.ok and calls[0] <= 3:
                hist.append((G.raised, G.framer_raised, G.reset, G.closed, bool(h.running)))       # the loop ended by itself
            for (raised, fraised, reset, closed, running) in hist:
                E.prove('%s:after-an-exception-the-connection-is-closed-or-the-framer-reset' % tag, (not raised) or (not running) or reset or closed)
                if fate == 'closed':
                    E.prove('%s:a-framing-error-ends-the-connection' % tag, (not fraised) or (not running) or closed)
                elif fate == 'reset':
                    E.prove('%s:a-framing-error-resets-the-framer-and-serving-goes-on' % tag, (not fraised) or (reset and running))
        if out.cut:
            E.prove('%s:after-an-exception-the-connection-is-closed-or-the-framer-reset' % tag, L.Implies(G.raised, L.Or(L.Not(L.truth(h.running)), G.reset, G.closed)))
            if fate == 'closed':
                E.prove('%s:a-framing-error-ends-the-connection' % tag, L.Implies(G.framer_raised, L.Or(L.Not(L.truth(h.running)), G.closed)))
            elif fate == 'reset':
                E.prove('%s:a-framing-error-resets-the-framer-and-serving-goes-on' % tag, L.Implies(G.framer_raised, L.And(G.reset, L.truth(h.running))))
    return lemma


def asyncio_loop(cls, tag='C12', fate=None):
    def lemma(E):
        G = Ghost()
        calls = [0]

        def get():
            G.raised, G.reset, G.closed, G.framer_raised = False, False, False, False
            calls[0] += 1
            if E.mode == 'concrete' and calls[0] > 3:
                h.running = False
                return (b'', ('peer', 502)) if 'Disconnected' in cls else b''
            k = E.choice('recv_outcome', ['data', 'empty', 'Exception'])
            if k == 'Exception':
                G.raised = True
                raise E.Raised('Exception')
            d = E.bytes('chunk', 1, 1024) if k == 'data' else b''
            return (d, ('peer', 502)) if 'Disconnected' in cls else d

        def close():
            G.closed = True
        server = E.obj(S.AIO + 'ModbusTcpServer', context=context(E), broadcast_enable=E.bool('broadcast_enable'), ignore_missing_slaves=False)
        h = E.obj(S.AIO + cls, server=server, framer=stub_framer(E, G), receive_queue=E.stub('queue', {'get': get}, awaitable=('get',)),
                  transport=E.stub('transport', {'close': close}), client_address=('peer', 502), running=True, handler_task=None)
        if E.mode == 'concrete':
            import asyncio
            out = E.attempt(lambda: E._run(lambda: asyncio.new_event_loop().run_until_complete(h.handle())))
        else:
            out = E.attempt(lambda: E.method(h, 'handle'), allow_cut=True)
        E.prove('%s:no-exception-escapes-the-serving-loop' % tag, out.ok)
        if 'Disconnected' in cls and tag == 'C12':
            # one task serves every peer of the datagram server: whatever a datagram is (empty, garbage, a request) and whatever the queue or
            # the framer raised, the task goes round again - nothing a peer sends stops the service for the others
            if out.cut:
                E.prove('C12:no-datagram-stops-the-datagram-server', L.truth(h.running))
            elif E.mode == 'concrete':
                E.prove('C12:no-datagram-stops-the-datagram-server', calls[0] > 3)
        if out.cut:
            E.prove('%s:after-an-exception-the-connection-is-closed-or-the-framer-reset' % tag, L.Implies(G.raised, L.Or(L.Not(L.truth(h.running)), G.reset, G.closed)))
            if fate == 'closed':
                E.prove('%s:a-framing-error-ends-the-connection' % tag, L.Implies(G.framer_raised, L.Or(L.Not(L.truth(h.running)), G.closed)))
            elif fate == 'reset':
                E.prove('%s:a-framing-error-resets-the-framer-and-serving-goes-on' % tag, L.Implies(G.framer_raised, L.And(G.reset, L.truth(h.running))))
    return lemma


def twisted_entry(kind):
    def lemma(E):
        G = Ghost()
        ctl = E.new('pymodbus.device.ModbusControlBlock')
        ctx = context(E)
        data = E.bytes('data', 0, 1024)
        fr = stub_framer(E, G)
        if kind == 'udp':
            p = E.obj(S.TW + 'ModbusUdpProtocol', store=ctx, control=ctl, framer=fr, ignore_missing_slaves=False)
            out = E.attempt(lambda: E.method(p, 'datagramReceived', data, ('10.0.0.1', 502)))
        else:
            factory = E.obj(S.TW + 'ModbusServerFactory', store=ctx, control=ctl, ignore_missing_slaves=False)
            p = E.obj(S.TW + 'ModbusTcpProtocol', factory=factory, framer=fr)
            out = E.attempt(lambda: E.method(p, 'dataReceived', data))
        if out.ok:
            E.prove('C12:entry-point-accepts-every-datagram', True)
        else:
            # only what the framer itself raised may leave the entry point (the reactor then drops the connection)
            E.prove('C12:entry-point-raises-only-what-the-framer-raised', G.raised, raised=out.exc.cls)
    return lemma


def loop_ann(G):
    # after an iteration in which something raised, the connection is closed or the framer has been reset
    return LoopAnn('serve', lambda v, j: L.Implies(G_flag(v, 'raised'), L.Or(L.Not(L.truth(v.self.running)), G_flag(v, 'reset'), G_flag(v, 'closed'))))


def G_flag(v, name):
    return getattr(v.self._ghost, name)


# --------------------------------------------------------------------------- (e) malformed write PDUs change nothing
from spec import pdu as P
from . import store_contracts as ST
from . import codec_contracts as K
from . import msgs as M
from .C04 import tables_unchanged

DEC = 'pymodbus.factory.ServerDecoder'
WRITE_CONTRACTS = ST.SLAVE_CONTRACTS + (K.UnpackBitstring(), K.WMRegsDecode(), K.RWMRegsDecode())


def prescribed_length(fc, body):
    """(length the PDU's own fields prescribe for its body, fields internally consistent) for the write function codes - MODBUS AP v1.1b3 section 6"""
    if fc in (5, 6):
        return 4, True
    if fc == 22:
        return 6, True
    if fc == 15:
        q, bc = P.u16_at(body, 2), L.at(body, 4)
        return 5 + bc, bc == (q + 7) // 8
    if fc == 16:
        q, bc = P.u16_at(body, 2), L.at(body, 4)
        return 5 + bc, bc == 2 * q
    q, bc = P.u16_at(body, 6), L.at(body, 8)          # 23
    return 9 + bc, bc == 2 * q


HEAD = {5: 4, 6: 4, 22: 6, 15: 5, 16: 5, 23: 9}


def malformed_lemma(fc):
    """any byte string after a write function code: unless it has exactly the length its own count / byte-count fields prescribe
    (and those agree), decoding and executing it - whatever the outcome, exception included - leaves all four tables as they were"""
    def lemma(E):
        ctx = ST.slave_context(E)
        body = E.bytes('body', 0, 260)
        n = L.length(body)
        before = E.clone(ctx)
        dec = E.new(DEC)

        def run():
            req = E.method(dec, 'decode', E.as_bytes(L.concat([fc], body)))
            if req is None:
                return None
            return E.method(req, 'execute', ctx)
        out = E.attempt(run)
        unchanged = tables_unchanged(E, ctx, before)
        # whatever the bytes: a PDU the server itself rejects (exception response) or fails on (an exception escaping decode / execute)
        # has changed nothing - no partial effect of a refused request
        if not out.ok or (out.value is not None and E.classname(out.value) == 'ExceptionResponse'):
            fkx = {'finding': 'C12-F2', 'region': True} if fc == 15 else {}
            E.prove('malformed:a-refused-request-has-no-partial-effect', unchanged)
        if n < HEAD[fc]:
            E.prove('malformed:shorter-than-the-fixed-fields->no-change', unchanged)
            return
        want, consistent = prescribed_length(fc, body)
        fk = {'finding': 'C12-F2', 'region': n < want} if fc == 15 else {}
        E.prove('malformed:data-shorter-than-the-fields-prescribe->no-change', L.Implies(n < want, unchanged), **fk)
        E.prove('malformed:count-and-byte-count-disagree->no-change', L.Implies(L.And(n >= want, L.Not(consistent)), unchanged),
                **({'finding': 'C12-F2', 'region': P.u16_at(body, 2) > 8 * (n - 5)} if fc == 15 else {}))
        fk = {'finding': 'C12-F1', 'region': n > want} if fc in (15, 16, 23) else {}
        E.prove('malformed:bytes-after-the-prescribed-end->no-change', L.Implies(n > want, unchanged), **fk)
        E.cover('well-formed-reachable')
    return lemma


def malformed_twin(fc):
    """well-formed write PDUs and their damaged variants (cut by whole registers / odd bytes, extended, counts changed)"""
    def make(g):
        r = g.r
        q = r.choice([1, 1, 2, 3, 8, 9])
        a = r.randrange(0, 12)
        if fc in (5, 6):
            body = [0, a, r.choice([0, 0xFF]), 0]
        elif fc == 22:
            body = [0, a, r.randrange(256), r.randrange(256), r.randrange(256), r.randrange(256)]
        elif fc == 15:
            nb = (q + 7) // 8
            body = [0, a, 0, q, nb] + [r.randrange(256) for _ in range(nb)]
        elif fc == 16:
            body = [0, a, 0, q, 2 * q] + [r.randrange(256) for _ in range(2 * q)]
        else:
            body = [0, r.randrange(0, 12), 0, r.choice([1, 2, 5]), 0, a, 0, q, 2 * q] + [r.randrange(256) for _ in range(2 * q)]
        what = r.choice(['ok', 'cut-even', 'cut-even', 'cut-odd', 'extend', 'count+', 'count-', 'bc'])
        if what == 'cut-even' and len(body) > HEAD[fc] + 2:
            del body[len(body) - 2 * r.randrange(1, (len(body) - HEAD[fc]) // 2 + 1):]
        elif what == 'cut-odd' and len(body) > 1:
            del body[len(body) - 1 - 2 * r.randrange(0, 2):]
        elif what == 'extend':
            body += [r.randrange(256) for _ in range(r.choice([1, 2, 3]))]
        elif what in ('count+', 'count-') and fc in (15, 16, 23):
            i = 3 if fc != 23 else 7
            body[i] = max(0, body[i] + (1 if what == 'count+' else -1))
        elif what == 'bc' and fc in (15, 16, 23):
            i = 4 if fc != 23 else 8
            body[i] = max(0, body[i] + r.choice([-2, -1, 1, 2]))
        blocks = {}
        for t in 'dcih':
            blocks['ctx_%s_addr' % t] = r.choice([0, 1])
            blocks['ctx_%s_vals' % t] = {'items': [(r.random() < 0.5) if t in 'dc' else r.randrange(65536) for _ in range(r.choice([16, 30]))]}
        blocks['body'] = {'items': body}
        return blocks
    return make


def terminates_lemma(fc, cls_qual):
    """"nor stops serving": the one request decoder that walks its input with a while loop (groups of a file-record write) comes back - with a
    message or an exception - on every byte string: each turn of the loop moves the cursor forward (variant byte_count - count), whatever the
    reference-type byte and the lengths in the group header say"""
    def lemma(E):
        body = E.bytes('body', 1, 260)
        dec = E.new(DEC)
        out = E.attempt(lambda: E.method(dec, 'decode', E.as_bytes(L.concat([fc], body))))
        E.prove('terminates:decode-returns-or-raises', L.Or(out.ok, L.Not(out.ok)))
        if out.ok:
            E.cover('decoded')
    return lemma


def short_segment_lemma(E):
    """a TCP segment or datagram of at most 7 bytes arriving at a fresh Modbus/TCP receiver is shorter than any frame (7 header bytes and a
    function code): whatever it contains - a bare write PDU included - and whatever the framer does with it (raise, wait, hand an error
    response to the callback), no cell of the store changes"""
    ctx = ST.slave_context(E)
    before = E.clone(ctx)
    seg = E.bytes('segment', 1, 7)
    f = E.new(FRAMER_PIP.rsplit('.', 1)[0], E.new(DEC))

    def cb(req):
        E.method(req, 'execute', ctx)
    out = E.attempt(lambda: E.method(f, 'processIncomingPacket', E.as_bytes(seg), E.callback(cb, 'callback'), [E.int('unit0', 0, 256)], single=E.bool('single')))
    E.prove('short:a-segment-shorter-than-a-frame-changes-no-cell', tables_unchanged(E, ctx, before))


def truncated_datagram(E):
    """datagram front-ends hand every datagram to one framer: a datagram that announces more bytes than it carries (MBAP length larger than
    what arrived) is a malformed frame, not the beginning of one - it is discarded whole, so that nothing of it can be completed by bytes
    of the next datagram (possibly from another peer) and executed"""
    from . import framers as F
    from spec import pdu as P2
    rec = F.Rec()
    f = F.fresh_framer(E, 'socket', rec, outcomes=('message', 'none'))
    d = E.bytes('datagram', 8, 300)
    n = L.length(d)
    announced = P2.u16_at(d, 4)
    E.assume(L.And(announced >= 2, announced - 1 > n - 7))          # PDU bytes announced > PDU bytes present
    cb = E.callback(F.callback(E, rec), 'callback')
    out = E.attempt(lambda: E.method(f, 'processIncomingPacket', d, cb, E.int('unit0', 0, 256), single=E.bool('single')))
    E.prove('datagram:truncated-frame-raises-nothing', out.ok)
    E.prove('datagram:truncated-frame-delivers-nothing', len(rec.delivered) == 0)
    E.prove('datagram:truncated-frame-is-discarded-whole(nothing-left-for-the-next-datagram)', L.length(E.get(f, '_buffer')) == 0)


def get_units():
    us = [Unit('%s/datagram.truncated' % PROP, truncated_datagram, [PROP], functions=['pymodbus.framer.socket_framer.ModbusSocketFramer.processIncomingPacket',
                                                                                       'pymodbus.framer.socket_framer.ModbusSocketFramer.checkFrame'])]
    for fc in (5, 6, 15, 16, 22, 23):
        us.append(Unit('%s/malformed.fc%02d' % (PROP, fc), malformed_lemma(fc), [PROP], contracts=WRITE_CONTRACTS, twin=malformed_twin(fc),
                       functions=[M.REQ[fc] + '.decode', M.REQ[fc] + '.execute', DEC + '.decode', DEC + '._helper']))
    q = 'pymodbus.file_message.WriteFileRecordRequest.decode'
    us.append(Unit('%s/terminates.fc21' % PROP, terminates_lemma(0x15, q), [PROP], functions=[q, DEC + '.decode', DEC + '._helper'],
                   loops={(q, 0): LoopAnn('groups', lambda v, j: True, variant='auto')}))
    triv = lambda name: LoopAnn(name, lambda v, j: True)
    us.append(Unit('%s/short.socket' % PROP, short_segment_lemma, [PROP], contracts=WRITE_CONTRACTS,
                   loops={('pymodbus.file_message.ReadFileRecordRequest.decode', 0): triv('groups20'), ('pymodbus.file_message.WriteFileRecordRequest.decode', 0): triv('groups21')},
                   functions=[FRAMER_PIP, FRAMER_PIP.rsplit('.', 1)[0] + '._process', DEC + '.decode', DEC + '._helper']))
    for c in WRITE_CONTRACTS + ST.STORE_CONTRACTS:
        us.append(c.unit())
    for fe in S.FRONTENDS:
        us.append(Unit('%s/execute.%s' % (PROP, fe), S.serve_unicast(fe, PROP, clauses=('no-exception', 'failure', 'routing')), [PROP], functions=S.FUNCS[fe]))
    for cls in ('ModbusSingleRequestHandler', 'ModbusConnectedRequestHandler', 'ModbusDisconnectedRequestHandler'):
        q = S.SY + cls + '.handle'
        u = Unit('%s/loop.sync.%s' % (PROP, cls), sync_loop(cls), [PROP], functions=[q],
                 loops={(q, 0): LoopAnn('serve', lambda v, j: True)})
        if 'Disconnected' in cls:
            ann = u.loops[(q, 0)]
            ann.keep = ('socket', 'request')
        us.append(u)
    for cls in ('ModbusConnectedRequestHandler', 'ModbusDisconnectedRequestHandler'):
        q = S.AIO + 'ModbusBaseRequestHandler.handle'
        us.append(Unit('%s/loop.asyncio.%s' % (PROP, cls), asyncio_loop(cls), [PROP], functions=[q], loops={(q, 0): LoopAnn('serve', lambda v, j: True)}))
    for kind in ('tcp', 'udp'):
        us.append(Unit('%s/entry.twisted.%s' % (PROP, kind), twisted_entry(kind), [PROP],
                       functions=[S.TW + ('ModbusUdpProtocol.datagramReceived' if kind == 'udp' else 'ModbusTcpProtocol.dataReceived')]))
    return us
