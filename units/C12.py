"""C12 - no received byte sequence can crash a server or corrupt its data.

(a) serving loops: one iteration of every handle() loop, from an arbitrary loop state, with the transport returning
    arbitrary bytes or raising and the framer's processIncomingPacket raising *any* exception (so the proof does not
    depend on the framers being right): no exception escapes, and after an exception the connection is closed
    (running cleared) or the framer is reset - loop cut at the invariant, hence all iterations;
(b) execute(): no exception escapes and a datastore failure is mapped to exception 04 (serve lemmas, S-SERVE);
(c) datagram entry points of the Twisted front-end accept every datagram without raising;
(d) decode failures precede any store access: the callback (execute) is only reached after decoder.decode returned
    a message (framer _process; C07 gate units), so a PDU the decoder rejects cannot touch the datastore."""
from pyvc.unit import Unit, LoopAnn
from pyvc import lang as L
from . import serve as S

TRUSTED = []
ASSUMPTIONS = ['Twisted: an exception leaving dataReceived makes the reactor drop that connection and keep serving (documented reactor behaviour, external)',
               'asyncio: the event loop keeps running other connections when a handler task ends (external)',
               'only Exception subclasses (A8); the process is not in listen-only mode']
PROP = 'C12'

# what a framer / decoder may raise on hostile bytes (transport errors - OSError, socket.timeout - come from recv only)
EXCS = ['Exception', 'struct.error', 'IndexError', 'KeyError', 'TypeError', 'ValueError', 'ModbusIOException', 'InvalidMessageReceivedException', 'binascii.Error']
FRAMER_PIP = 'pymodbus.framer.socket_framer.ModbusSocketFramer.processIncomingPacket'


class Ghost:
    def __init__(self):
        self.raised = False     # an exception was raised by the transport / framer in this iteration
        self.reset = False      # framer.resetFrame() was called in this iteration
        self.closed = False     # the transport was closed


def stub_framer(E, G):
    def pip(*args, **kw):
        E.check_args(FRAMER_PIP, args, kw)
        k = E.choice('framer_outcome', ['ok'] + EXCS)
        if k != 'ok':
            G.raised = True
            raise E.Raised(k)
        return None

    def reset():
        G.reset = True
    return E.stub('framer', {'processIncomingPacket': pip, 'resetFrame': reset})


def context(E):
    return E.obj(S.CTX, single=E.bool('single'), _slaves={0: E.int('ctx', 1, None)})


def sync_loop(cls):
    def lemma(E):
        G = Ghost()

        calls = [0]

        def recv(n):
            G.raised, G.reset = False, False          # first action of an iteration
            calls[0] += 1
            if E.mode == 'concrete' and calls[0] > 3:   # the twin runs the real (endless) loop: stop it after three reads
                h.running = False
                return b''
            k = E.choice('recv_outcome', ['data', 'empty', 'socket.timeout', 'OSError', 'Exception'])
            if k == 'data':
                return E.bytes('chunk', 1, 1024)
            if k == 'empty':
                return b''
            G.raised = True
            raise E.Raised(k)
        sock = E.stub('socket', {'recv': recv})
        server = E.obj(S.SY + 'ModbusTcpServer', context=context(E), broadcast_enable=E.bool('broadcast_enable'), ignore_missing_slaves=False)
        if 'Disconnected' in cls:
            req = (E.bytes('datagram', 0, 1024), sock)
        else:
            req = sock
        h = E.obj(S.SY + cls, server=server, framer=stub_framer(E, G), request=req, socket=sock, client_address=('peer', 502), running=True)
        out = E.attempt(lambda: E.method(h, 'handle'), allow_cut=True)
        E.prove('C12:no-exception-escapes-the-serving-loop', out.ok)
        if out.cut:
            E.prove('C12:after-an-exception-the-connection-is-closed-or-the-framer-reset', L.Implies(G.raised, L.Or(L.Not(L.truth(h.running)), G.reset, G.closed)))
    return lemma


def asyncio_loop(cls):
    def lemma(E):
        G = Ghost()
        calls = [0]

        def get():
            G.raised, G.reset, G.closed = False, False, False
            calls[0] += 1
            if E.mode == 'concrete' and calls[0] > 3:
                h.running = False
                return (b'', ('peer', 502)) if 'Disconnected' in cls else b''
            k = E.choice('recv_outcome', ['data', 'empty', 'Exception'])
            if k == 'Exception':
                G.raised = True
                raise E.Raised('Exception')
            d = E.bytes('chunk', 1, 1024) if k == 'data' else b''
            return (d, ('peer', 502)) if 'Disconnected' in cls else d

        def close():
            G.closed = True
        server = E.obj(S.AIO + 'ModbusTcpServer', context=context(E), broadcast_enable=E.bool('broadcast_enable'), ignore_missing_slaves=False)
        h = E.obj(S.AIO + cls, server=server, framer=stub_framer(E, G), receive_queue=E.stub('queue', {'get': get}, awaitable=('get',)),
                  transport=E.stub('transport', {'close': close}), client_address=('peer', 502), running=True, handler_task=None)
        if E.mode == 'concrete':
            import asyncio
            out = E.attempt(lambda: E._run(lambda: asyncio.new_event_loop().run_until_complete(h.handle())))
        else:
            out = E.attempt(lambda: E.method(h, 'handle'), allow_cut=True)
        E.prove('C12:no-exception-escapes-the-serving-loop', out.ok)
        if out.cut:
            E.prove('C12:after-an-exception-the-connection-is-closed-or-the-framer-reset', L.Implies(G.raised, L.Or(L.Not(L.truth(h.running)), G.reset, G.closed)))
    return lemma


def twisted_entry(kind):
    def lemma(E):
        G = Ghost()
        ctl = E.new('pymodbus.device.ModbusControlBlock')
        ctx = context(E)
        data = E.bytes('data', 0, 1024)
        fr = stub_framer(E, G)
        if kind == 'udp':
            p = E.obj(S.TW + 'ModbusUdpProtocol', store=ctx, control=ctl, framer=fr, ignore_missing_slaves=False)
            out = E.attempt(lambda: E.method(p, 'datagramReceived', data, ('10.0.0.1', 502)))
        else:
            factory = E.obj(S.TW + 'ModbusServerFactory', store=ctx, control=ctl, ignore_missing_slaves=False)
            p = E.obj(S.TW + 'ModbusTcpProtocol', factory=factory, framer=fr)
            out = E.attempt(lambda: E.method(p, 'dataReceived', data))
        if out.ok:
            E.prove('C12:entry-point-accepts-every-datagram', True)
        else:
            # only what the framer itself raised may leave the entry point (the reactor then drops the connection)
            E.prove('C12:entry-point-raises-only-what-the-framer-raised', G.raised, raised=out.exc.cls)
    return lemma


def loop_ann(G):
    # after an iteration in which something raised, the connection is closed or the framer has been reset
    return LoopAnn('serve', lambda v, j: L.Implies(G_flag(v, 'raised'), L.Or(L.Not(L.truth(v.self.running)), G_flag(v, 'reset'), G_flag(v, 'closed'))))


def G_flag(v, name):
    return getattr(v.self._ghost, name)


def get_units():
    us = []
    for fe in S.FRONTENDS:
        us.append(Unit('%s/execute.%s' % (PROP, fe), S.serve_unicast(fe, PROP, clauses=('no-exception', 'failure', 'routing')), [PROP], functions=S.FUNCS[fe]))
    for cls in ('ModbusSingleRequestHandler', 'ModbusConnectedRequestHandler', 'ModbusDisconnectedRequestHandler'):
        q = S.SY + cls + '.handle'
        u = Unit('%s/loop.sync.%s' % (PROP, cls), sync_loop(cls), [PROP], functions=[q],
                 loops={(q, 0): LoopAnn('serve', lambda v, j: True)})
        if 'Disconnected' in cls:
            ann = u.loops[(q, 0)]
            ann.keep = ('socket', 'request')
        us.append(u)
    for cls in ('ModbusConnectedRequestHandler', 'ModbusDisconnectedRequestHandler'):
        q = S.AIO + 'ModbusBaseRequestHandler.handle'
        us.append(Unit('%s/loop.asyncio.%s' % (PROP, cls), asyncio_loop(cls), [PROP], functions=[q], loops={(q, 0): LoopAnn('serve', lambda v, j: True)}))
    for kind in ('tcp', 'udp'):
        us.append(Unit('%s/entry.twisted.%s' % (PROP, kind), twisted_entry(kind), [PROP],
                       functions=[S.TW + ('ModbusUdpProtocol.datagramReceived' if kind == 'udp' else 'ModbusTcpProtocol.dataReceived')]))
    return us
