"""C17 - all server front-ends are behaviourally interchangeable.

Relational, not differential: each of the seven execute/send pairs (sync TCP / serial / UDP, asyncio TCP / UDP, Twisted
TCP / UDP) is proved against the *same* specification S-SERVE (units/serve.py) for all requests, unit sets and flags -
so for equal inputs they emit byte-identical frames and perform the same execution against the store.  The request-level
semantics (request.execute against the datastore) is shared code (C04/C05).  Connection privacy and request atomicity
are ownership obligations (pyvc/ownership.py): every stream front-end builds a fresh framer per connection; request
execution contains no await/yield in the event-loop front-ends.  Interleavings themselves are not explored."""
from pyvc.unit import Unit
from pyvc import lang as L
from . import serve as S

TRUSTED = ['S-SERVE (units/serve.py)']
ASSUMPTIONS = ['schedules / interleavings of several connections are NOT explored (not applicable to contract-based verification); only ownership and atomicity obligations are checked',
               'Twisted has no broadcast option: compared with broadcast disabled']
PROP = 'C17'


def fresh_framer(fe):
    """connection setup builds a new framer object with an empty buffer for every connection"""
    cls, meth, has_bc = S.FRONTENDS[fe]

    def lemma(E):
        dec = E.opaque('decoder')
        fcls = E.cls(S.SOCKET)
        timeouts = []
        if fe.startswith('sync'):
            server = E.obj(S.SY + 'ModbusTcpServer', framer=fcls, decoder=dec, threads=[])

            def sock():
                return E.stub('socket', {'settimeout': lambda t: timeouts.append(t), 'setblocking': lambda b: timeouts.append(None if b else 0),
                                         'setsockopt': lambda *a: None, 'getpeername': lambda: ('peer', 500)})
            hs = [E.obj(cls, server=server, client_address=('peer', 500 + k), running=False, framer=None, request=sock()) for k in (0, 1)]
            for h in hs:
                E.method(h, 'setup')
        elif fe == 'asyncio.tcp':
            server = E.obj(S.AIO + 'ModbusTcpServer', framer=fcls, decoder=dec, active_connections={})
            tr = E.stub('transport', {'get_extra_info': lambda k: ('peer', 502)})
            hs = [E.obj(cls, server=server, running=False, handler_task=None) for k in (0, 1)]
            for h in hs:
                E.method_body(h, 'connection_made', tr) if False else E.call(S.AIO + 'ModbusBaseRequestHandler.connection_made', h, tr)
        else:
            factory = E.obj(S.TW + 'ModbusServerFactory', framer=fcls, decoder=dec)
            tr = E.stub('transport', {'getHost': lambda: 'peer'})
            hs = [E.obj(cls, factory=factory, transport=tr) for k in (0, 1)]
            for h in hs:
                E.method(h, 'connectionMade')
        f0, f1 = E.get(hs[0], 'framer'), E.get(hs[1], 'framer')
        # the threaded handlers reset the framer when a read times out; the event-loop front-ends have no such notion: only with a blocking
        # connection does a frame that arrives in pieces, with any pause between them, fare the same on all of them
        E.prove('connection:reads-block-without-a-timeout(a-pause-within-a-frame-is-not-an-event)', all(t is None for t in timeouts))
        E.prove('framer:one-per-connection', f0 is not f1)
        E.prove('framer:starts-empty', L.And(L.length(E.get(f0, '_buffer')) == 0, L.length(E.get(f1, '_buffer')) == 0))
    return lemma


def private_state(kind):
    """"each connection's framing state is private to it": two framers built by the real constructor (what every connection gets); one of
    them receives a complete frame and has its header filled in place by checkFrame, is advanced and reset - the other one's buffer and
    header are what they were (no object behind the two is shared)"""
    from . import framers as F
    from pyvc.unit import LoopAnn

    def lemma(E):
        rec = F.Rec()
        uid = E.choice('unit', [1, 17, 200])
        pdu = [3, 0, 7, 0, E.choice('count', [1, 2, 9])]
        frame = F.concrete_frame(kind, uid, pdu, 0x0A01)
        size = lambda fc, buf: len(frame)
        f0, f1 = F.fresh_framer(E, kind, rec, size_of=size), F.fresh_framer(E, kind, rec, size_of=size)
        snap = lambda f: (E.get(f, '_buffer'), dict(E.get(f, '_header')))
        b0, h0 = snap(f0)
        b1, h1 = snap(f1)
        same = lambda a, b: (a == b) if E.mode != 'symbolic' else E.same_state(a, b)
        E.method(f0, 'addToFrame', E.as_bytes(frame))
        ok = E.method(f0, 'checkFrame')
        E.prove('private:the-frame-checks-out-on-the-framer-that-received-it', L.truth(ok))
        E.prove('private:the-other-connections-framer-is-untouched[after checkFrame]', L.And(L.eq(E.get(f1, '_buffer'), b1), same(dict(E.get(f1, '_header')), h1)))
        E.method(f0, 'advanceFrame')
        E.method(f0, 'resetFrame')
        E.prove('private:the-other-connections-framer-is-untouched[after reset]', L.And(L.eq(E.get(f1, '_buffer'), b1), same(dict(E.get(f1, '_header')), h1)))
    return lemma


def own(E, label, result, **kw):
    ok, detail = result
    E.prove(label, ok, backend='ownership', detail=detail, **kw)


def atomic_event_loop(E):
    """asyncio and Twisted run a request to completion on the event loop: no suspension point inside request execution"""
    from pyvc import ownership as O
    for q in (S.AIO + 'ModbusBaseRequestHandler.execute', S.AIO + 'ModbusBaseRequestHandler.send', S.TW + 'ModbusTcpProtocol._execute',
              S.TW + 'ModbusTcpProtocol._send', S.TW + 'ModbusUdpProtocol._execute', S.TW + 'ModbusUdpProtocol._send'):
        own(E, 'atomic:no-await-or-yield[%s]' % q.split('.', 3)[-1], O.no_await_or_yield(q))


def atomic_threaded(E):
    """the threaded front-end serves each connection on its own thread over one shared datastore: a request's
    read-modify-write (FC 22, FC 23) is atomic only if request.execute runs under a lock"""
    from pyvc import ownership as O
    own(E, 'atomic:threaded-execute-runs-under-a-lock', O.runs_under_lock(S.SY + 'ModbusBaseRequestHandler.execute', 'execute'), finding='C17-F2', region=True)


def lost_update_witness(E):
    if E.mode != 'concrete':
        E.prove('atomic:directed-two-thread-schedule(concrete only)', True, backend='ownership')
        return
    E.prove('atomic:directed-two-thread-mask-writes-both-take-effect', directed_lost_update(), finding='C17-F2', region=True)


def directed_lost_update():
    """two connections of the threaded server each mask-write a different bit of the same register; thread A is pre-empted
    between its read and its write.  Returns True when both bits are set afterwards."""
    import threading
    from pymodbus.server.sync import ModbusConnectedRequestHandler
    from pymodbus.datastore import ModbusSequentialDataBlock, ModbusSlaveContext, ModbusServerContext
    from pymodbus.register_write_message import MaskWriteRegisterRequest
    a_read, b_done = threading.Event(), threading.Event()

    class Block(ModbusSequentialDataBlock):
        def getValues(self, address, count=1):
            v = ModbusSequentialDataBlock.getValues(self, address, count)
            if threading.current_thread().name == 'A':
                a_read.set()
                b_done.wait(5)
            return v
    store = ModbusSlaveContext(hr=Block(0, [0] * 10), zero_mode=True)
    ctx = ModbusServerContext(slaves=store, single=True)

    class Srv:
        context, broadcast_enable, ignore_missing_slaves = ctx, False, False

    def run(bit):
        h = ModbusConnectedRequestHandler.__new__(ModbusConnectedRequestHandler)
        h.server, h.send = Srv, (lambda m: None)
        h.execute(MaskWriteRegisterRequest(1, 0xFFFF ^ bit, bit, unit=1))
        if threading.current_thread().name == 'B':
            b_done.set()
    ta = threading.Thread(target=run, args=(0x0001,), name='A')
    tb = threading.Thread(target=run, args=(0x0002,), name='B')
    ta.start(); a_read.wait(5); tb.start(); ta.join(10); tb.join(10)
    return store.getValues(3, 1, 1)[0] == 0x0003


def datagram_framer(E):
    """datagram front-ends: the framing state must not be shared between peers"""
    from pyvc import ownership as O
    # sync UDP: socketserver builds one handler (and setup() one framer) per datagram
    own(E, 'framer:sync-udp-one-per-datagram', O.assigned_from_constructor_in(S.SY + 'ModbusBaseRequestHandler.setup', 'framer'))
    ok, detail = O.assigned_from_constructor_in(S.TW + 'ModbusUdpProtocol.__init__', 'framer')
    # a framer built in __init__ of the (single) datagram protocol object is shared by every peer
    E.prove('framer:twisted-udp-not-shared-between-peers', not ok, backend='ownership', detail=detail, finding='C17-F3', region=True)
    ok2, detail2 = O.assigned_from_constructor_in(S.AIO + 'ModbusBaseRequestHandler.connection_made', 'framer')
    E.prove('framer:asyncio-udp-not-shared-between-peers', not ok2, backend='ownership',
            detail='the asyncio datagram endpoint calls connection_made once: ' + detail2, finding='C17-F3', region=True)


def twisted_fate(E):
    """Twisted stream front-end: an exception raised by the framer leaves dataReceived (nothing swallows it), which makes the reactor drop the connection"""
    from .C12 import Ghost, stub_framer, context
    G = Ghost()
    ctl = E.new('pymodbus.device.ModbusControlBlock')
    factory = E.obj(S.TW + 'ModbusServerFactory', store=context(E), control=ctl, ignore_missing_slaves=False)
    p = E.obj(S.TW + 'ModbusTcpProtocol', factory=factory, framer=stub_framer(E, G))
    out = E.attempt(lambda: E.method(p, 'dataReceived', E.bytes('data', 0, 64)))
    E.prove('C17:a-framing-error-ends-the-connection', L.Implies(G.framer_raised, not out.ok))


def get_units():
    us = []
    for nm, fn in (('atomic.event_loop', atomic_event_loop), ('atomic.threaded', atomic_threaded), ('atomic.threaded.witness', lost_update_witness),
                   ('framer.datagram', datagram_framer)):
        u = Unit('%s/%s' % (PROP, nm), fn, [PROP], functions=[])
        u.backend = 'ownership'
        us.append(u)
    for fe in S.FRONTENDS:
        us.append(Unit('%s/serve.%s' % (PROP, fe), S.serve_unicast(fe, PROP, finding='C17-F1'), [PROP], functions=S.FUNCS[fe]))
    for fe in ('sync.tcp', 'sync.serial', 'sync.udp', 'asyncio.tcp', 'twisted.tcp'):
        cls = S.FRONTENDS[fe][0]
        fn = cls + ('.setup' if fe.startswith('sync') else '.connection_made' if fe.startswith('asyncio') else '.connectionMade')
        us.append(Unit('%s/fresh_framer.%s' % (PROP, fe), fresh_framer(fe), [PROP], functions=[fn]))
    # same connection fate: on every stream front-end a framing error (any exception out of processIncomingPacket) ends that connection - the
    # threaded handler stops, the asyncio handler closes its transport, Twisted lets the exception leave dataReceived (the reactor drops the connection)
    from . import framers as F, codec_contracts as K
    for kind in ('socket', 'rtu', 'ascii', 'binary'):
        us.append(Unit('%s/framer.private.%s' % (PROP, kind), private_state(kind), [PROP],
                       functions=[F.QUAL[kind] + '.' + m for m in ('__init__', 'checkFrame', 'advanceFrame', 'resetFrame')]))
    # same acceptance: every front-end hands its framer exactly the hosted units (+0 under broadcast where the option exists), so a request
    # for an absent unit meets the same fate - dropped by the framer - on all of them
    from . import C10 as _C10
    for fe in S.FRONTENDS:
        if fe.startswith('twisted'):
            fnq = S.TW + ('ModbusTcpProtocol.dataReceived' if fe.endswith('tcp') else 'ModbusUdpProtocol.datagramReceived')
            us.append(Unit('%s/unit_list.%s' % (PROP, fe), _C10.unit_list(fe), [PROP], functions=[fnq]))
        elif S.FRONTENDS[fe][2]:
            hq = (S.FRONTENDS[fe][0] if fe.startswith('sync') else S.AIO + 'ModbusBaseRequestHandler') + '.handle'
            from pyvc.unit import LoopAnn as _LA
            ann = _LA('serve', lambda v, j: True)
            if fe == 'sync.udp':
                ann.keep = ('socket', 'request')
            us.append(Unit('%s/unit_list.%s' % (PROP, fe), _C10.unit_list(fe), [PROP], functions=[hq], loops={(hq, 0): ann}))
    from .C12 import sync_loop, asyncio_loop, twisted_entry
    from pyvc.unit import LoopAnn
    q = S.SY + 'ModbusConnectedRequestHandler.handle'
    us.append(Unit('%s/fate.sync.tcp' % PROP, sync_loop('ModbusConnectedRequestHandler', tag='C17', fate='closed'), [PROP], functions=[q], loops={(q, 0): LoopAnn('serve', lambda v, j: True)}))
    q = S.AIO + 'ModbusBaseRequestHandler.handle'
    us.append(Unit('%s/fate.asyncio.tcp' % PROP, asyncio_loop('ModbusConnectedRequestHandler', tag='C17', fate='closed'), [PROP], functions=[q], loops={(q, 0): LoopAnn('serve', lambda v, j: True)}))
    us.append(Unit('%s/fate.twisted.tcp' % PROP, twisted_fate, [PROP], functions=[S.TW + 'ModbusTcpProtocol.dataReceived']))
    return us
