"""C09 - the server sends exactly one matching response per accepted request (see units/serve.py: S-SERVE)."""
from pyvc.unit import Unit
from . import serve as S

TRUSTED = ['S-SERVE (units/serve.py) transcribed from the property statements C09/C10/C05']
ASSUMPTIONS = ['a decoded request is abstracted as: ids and function code arbitrary, execute(ctx) returns a response with fc or fc|0x80 or raises (per-class: C04/C05/C14 units)',
               'socket.send / transport.write deliver the frame atomically (external)',
               'order and "exactly one per request" across a connection follow from the framer invoking the callback once per delivered frame in order (C06) and the handler sending inside the callback']
PROP = 'C09'


def listen_only_lemma(E):
    """which responses are "listen-only": the one the real ForceListenOnlyModeRequest.execute builds says should_respond False - the serve
    lemmas prove that such a response puts nothing on the wire - and every other response class, built by its real constructor the way
    the request classes build it (no should_respond argument), says True.  The flag is read the way the front-ends read it (attribute)"""
    from . import codecs as C
    req = E.new('pymodbus.diag_message.ForceListenOnlyModeRequest')
    resp = E.method(req, 'execute')
    E.prove('listen-only:the-response-of-force-listen-only-mode-asks-for-silence', E.get(resp, 'should_respond') is False)
    names = sorted(set(c.cls for c in C.all_codecs() if c.direction == 'rsp' and not c.cls.endswith('ForceListenOnlyModeResponse')))
    names.append('pymodbus.pdu.ExceptionResponse')
    for q in names:
        m = E.new(q, 1) if q.endswith('ExceptionResponse') else E.new(q)
        E.prove('listen-only:every-other-response-is-to-be-sent[%s]' % q.split('.')[-1], E.get(m, 'should_respond') is True)


def encodable_lemma(fc):
    """the serve lemmas take "encode() returns some bytes" for granted: whatever a read request asks for (any quantity, any address, any
    store), the response its real execute() returns - normal or exception - can be put on the wire (its real encode() raises nothing), so
    that the one response is in fact sent"""
    from . import store_contracts as ST, msgs as M

    def lemma(E):
        ctx = ST.slave_context(E, layout='seq')
        a, c = E.int('address', 0, 65536), E.int('count', 0, 65536)
        if fc == 23:
            vals = E.ints('write_values', 0, 65536, 0, 130)
            req = M.request(E, 23, read_address=a, read_count=c, write_address=E.int('write_address', 0, 65536), write_count=L.length(vals),
                            write_byte_count=2 * L.length(vals), write_registers=vals)
        else:
            req = M.request(E, fc, address=a, count=c)
        resp = E.method(req, 'execute', ctx)
        out = E.attempt(lambda: E.method(resp, 'encode'))
        E.prove('encodable:the-response-execute-returned-can-be-encoded', out.ok, raised=(out.exc.cls if not out.ok else None))
        if out.ok:
            E.prove('encodable:it-fits-a-pdu', 1 + L.length(out.value) <= 253)
    return lemma


def get_units():
    from . import store_contracts as _ST, codecs as _C, codec_contracts as _K, msgs as _M
    from pyvc import lang as L
    globals()['L'] = L
    loops = {}
    for c in _C.all_codecs():
        loops.update(c.loops)
    enc_units = [Unit('%s/encodable.fc%02d' % (PROP, fc), encodable_lemma(fc), [PROP], contracts=_ST.SLAVE_CONTRACTS + (_K.PackBitstring(),), loops=loops,
                      functions=[_M.REQ[fc] + '.execute', _M.RSP[fc] + '.encode']) for fc in (1, 2, 3, 4, 23)]
    us = enc_units + [Unit('%s/listen_only' % PROP, listen_only_lemma, [PROP], functions=['pymodbus.diag_message.ForceListenOnlyModeRequest.execute', 'pymodbus.pdu.ModbusResponse.__init__'])]
    for fe in S.FRONTENDS:
        us.append(Unit('%s/unicast.%s' % (PROP, fe), S.serve_unicast(fe, PROP, finding='C09-F1'), [PROP], functions=S.FUNCS[fe]))
        if S.FRONTENDS[fe][2]:
            for n in (0, 1, 2, 3):
                u = Unit('%s/broadcast.%s.%dunits' % (PROP, fe, n), S.serve_broadcast(fe, PROP, n), [PROP], functions=S.FUNCS[fe])
                us.append(u)
    # "every accepted request": a well-formed request frame of any function code and any body length - none at all included - that
    # arrives at the framer of a serving loop is handed to execute() exactly once (the serve lemmas above start there)
    from . import C06, framers as F
    for kind in ('socket', 'rtu', 'ascii', 'binary'):
        fns = [F.QUAL[kind] + '.' + m for m in ('processIncomingPacket', 'checkFrame', 'isFrameReady', 'advanceFrame', 'getFrame')]
        us.append(Unit('%s/accepted.%s' % (PROP, kind), C06.step(kind, alone=True), [PROP], contracts=C06.CS, unroll={(F.QUAL[kind] + '.processIncomingPacket', 0): 2},
                       functions=fns, twin=C06.twin_inputs(kind)))
        us[-1].unwind = True
    return us
