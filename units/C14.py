"""C14 - predicted reply length equals the length the server really sends.

(a) per request class: get_response_pdu_size() == 1 + len(encode()) of the normal response the data model prescribes
    (FC 1-4: a response carrying `count` values; FC 5,6,15,16: the echo; FC 23: read_count registers; FC 8: the
    response object the request's own execute() builds);
(b) per framing: base_adu_size + PDU size (doubled for ASCII, as execute() does) == len(buildPacket(message));
(c) per framing: _calculate_exception_length() == len(buildPacket(ExceptionResponse)).
All linear arithmetic over the C01/C03 contracts."""
from pyvc.unit import Unit, FunctionContract, RelContract, LoopAnn
from pyvc import lang as L
from . import codecs as C
from . import codec_contracts as K
from . import msgs as M
from .C03 import AnyEncode, any_message, framer, SOCKET, RTU, ASCII, BINARY, TLS

TRUSTED = []
ASSUMPTIONS = ['binary framing: payload without delimiter bytes 0x7b/0x7d (frames with such bytes grow by one byte each: known finding C14-F2)']

TM = 'pymodbus.transaction.ModbusTransactionManager'
CODECS = {c.cls: c for c in C.all_codecs()}


def response_for(E, fc, n):
    """the normal response class instance carrying n values"""
    c = CODECS[M.RSP[fc]]
    f = dict(C.BASE)
    if fc in (1, 2):
        bits = E.bools('bits', 0, 2000)
        E.assume(L.length(bits) == n)
        f['bits'] = bits
    else:
        regs = E.ints('registers', 0, 65536, 0, 125)
        E.assume(L.length(regs) == n)
        f['registers'] = regs
    return E.obj(c.cls, **f), c


def read_size(fc):
    lim = M.LIMITS.get(fc, 125)

    def lemma(E):
        n = E.int('count', 1, lim + 1)
        if fc == 23:
            req = M.request(E, 23, read_address=0, read_count=n, write_address=0, write_registers=[0], write_count=1, write_byte_count=2)
        else:
            req = M.request(E, fc, address=E.int('address', 0, 65536), count=n)
        resp, c = response_for(E, fc, n)
        enc = E.method(resp, 'encode')
        E.prove('predicted==1+len(normal response)', E.method(req, 'get_response_pdu_size') == 1 + L.length(enc))
    return lemma


def echo_size(fc):
    def lemma(E):
        a = E.int('address', 0, 65536)
        if fc == 5:
            req = M.request(E, 5, address=a, value=E.bool('value'))
            resp = E.obj(M.RSP[5], address=a, value=E.bool('rvalue'), **C.BASE)
        elif fc == 6:
            req = M.request(E, 6, address=a, value=E.int('value', 0, 65536))
            resp = E.obj(M.RSP[6], address=a, value=E.int('rvalue', 0, 65536), **C.BASE)
        elif fc == 15:
            vals = E.bools('values', 1, 1968)
            req = M.request(E, 15, address=a, values=vals, byte_count=(L.length(vals) + 7) // 8)
            resp = E.obj(M.RSP[15], address=a, count=L.length(vals), **C.BASE)
        else:
            vals = E.ints('values', 0, 65536, 1, 123)
            req = M.request(E, 16, address=a, values=vals, count=L.length(vals), byte_count=2 * L.length(vals))
            resp = E.obj(M.RSP[16], address=a, count=L.length(vals), **C.BASE)
        enc = E.method(resp, 'encode')
        E.prove('predicted==1+len(normal response)', E.method(req, 'get_response_pdu_size') == 1 + L.length(enc))
    return lemma


MESSAGE_MODULES = ['bit_read_message', 'bit_write_message', 'register_read_message', 'register_write_message', 'diag_message', 'file_message',
                   'other_message', 'mei_message']
# request classes whose prediction has a lemma of its own below (diagnostic requests: one per sub-function, C14/size.diag.*)
COVERED = set(M.short(M.REQ[fc]) for fc in (1, 2, 3, 4, 5, 6, 15, 16, 22, 23))


def request_classes(E):
    """every class of the message modules whose name ends in Request, read from the source the check runs on"""
    import ast, os
    if E.mode == 'symbolic':
        from pyvc.resolver import Repo
        root = Repo.get().root
    else:
        import pymodbus
        root = os.path.dirname(os.path.dirname(pymodbus.__file__))
    out = []
    for m in MESSAGE_MODULES:
        tree = ast.parse(open(os.path.join(root, 'pymodbus', m + '.py')).read())
        out += ['pymodbus.%s.%s' % (m, n.name) for n in tree.body if isinstance(n, ast.ClassDef) and n.name.endswith('Request')]
    return out


def exposes_prediction(E, qual):
    c = E.cls(qual)
    return c.lookup('get_response_pdu_size')[0] if E.mode == 'symbolic' else hasattr(c, 'get_response_pdu_size')


def mask_write_size(E):
    """FC 22: the reply echoes the request.  If the class exposes a prediction it is the size of that echo; if it exposes none the
    client reads what is waiting (nothing to decide)"""
    if not exposes_prediction(E, M.REQ[22]):
        E.prove('no-prediction-exposed:the-client-reads-what-is-waiting', True)
        return
    a, am, om = E.int('address', 0, 65536), E.int('and_mask', 0, 65536), E.int('or_mask', 0, 65536)
    req = M.request(E, 22, address=a, and_mask=am, or_mask=om)
    resp = E.obj(M.RSP[22], address=a, and_mask=am, or_mask=om, **C.BASE)
    E.prove('predicted==1+len(normal response)', E.method(req, 'get_response_pdu_size') == 1 + L.length(E.method(resp, 'encode')))


def uncovered_lemma(E):
    """the property speaks of EVERY request class exposing a prediction: the classes this check has lemmas for are exactly those that expose
    one.  A class that starts to expose a prediction without a lemma here is out of reach (undecided), never silently passed"""
    for q in request_classes(E):
        name = M.short(q)
        if name in COVERED or q.startswith('pymodbus.diag_message.'):
            continue
        if exposes_prediction(E, q):
            if E.mode == 'symbolic':
                from pyvc.values import Unsupported
                raise Unsupported('%s exposes get_response_pdu_size and C14 has no lemma for it' % q)
    E.prove('every-predicting-request-class-has-a-lemma', True)


def manager(E, fqual):
    fr = framer(E, fqual)
    client = E.obj('pymodbus.client.sync.BaseModbusClient', framer=fr)
    tm = E.obj(TM, client=client, base_adu_size=None)
    E.method(tm, '_set_adu_size')
    return tm, fr


def adu_overhead(fqual, name):
    def lemma(E):
        msg, data, t, p, u, fc = any_message(E)
        tm, fr = manager(E, fqual)
        pkt = E.method(fr, 'buildPacket', msg)
        pdu = 1 + L.length(data)
        predicted = E.method(tm, '_calculate_response_length', pdu * 2 if name == 'ascii' else pdu)
        fk = {'finding': 'C14-F2', 'region': delim_count(E, data) > 0} if name == 'binary' else {}
        E.prove('%s: base_adu_size + pdu size == real frame length' % name, predicted == L.length(pkt), **fk)
    return lemma


def exception_length(fqual, name):
    def lemma(E):
        tm, fr = manager(E, fqual)
        exc = E.obj('pymodbus.pdu.ExceptionResponse', original_code=E.int('fc', 1, 128), function_code=None, exception_code=E.int('code', 0, 256),
                    transaction_id=E.int('tid', 0, 65536), protocol_id=0, unit_id=E.int('uid', 0, 256), skip_encode=False, check=0)
        E.set(exc, 'function_code', exc.original_code + 128)
        pkt = E.method(fr, 'buildPacket', exc)
        fk = {'finding': 'C14-F2', 'region': L.Or(exc.exception_code == 0x7B, exc.exception_code == 0x7D)} if name == 'binary' else {}
        E.prove('%s: predicted exception reply length == real frame length' % name, E.method(tm, '_calculate_exception_length') == L.length(pkt), **fk)
    return lemma


class PreflightPlain(FunctionContract):
    """ModbusBinaryFramer._preflight leaves a payload without delimiter bytes unchanged"""
    qual = BINARY + '._preflight'
    props = ('C14', 'C03')

    def make(self, E):
        fr = E.new(BINARY, E.opaque('decoder'))
        return [fr, E.bytes('data', 0, 252)], {}

    def pre(self, E, fr, data):
        return L.forall(0, L.length(data), lambda k: L.And(L.at(data, k) != 0x7B, L.at(data, k) != 0x7D))

    def spec(self, E, fr, data):
        return E.as_bytes(L.tolist(data))

    loops = {0: LoopAnn('bytes', lambda v, j: L.And(L.length(v.array) == j, L.forall(0, j, lambda k: L.at(v.array, k) == L.at(v.data, k))))}


def delim_count(E, data):
    """number of payload bytes equal to a binary-framing delimiter ('{' 0x7b or '}' 0x7d)"""
    return E.fold('delims', data, 0, lambda acc, b: acc + L.ite(L.Or(b == 0x7B, b == 0x7D), 1, 0), 0, None, additive=True)


class PreflightLen(RelContract):
    """ModbusBinaryFramer._preflight: every delimiter byte of the payload is doubled - the result is longer than the
    payload by the number of delimiter bytes, and equals the payload when there is none"""
    qual = BINARY + '._preflight'
    props = ('C14', 'C03')

    def make(self, E):
        fr = E.new(BINARY, E.opaque('decoder'))
        return [fr, E.bytes('data', 0, 252)], {}

    def result(self, E, fr, data):
        return E.bytes('preflight_result', 0, 600)

    def post(self, E, args, kw, result):
        data = args[1]
        c = delim_count(E, data)
        return L.And(L.length(result) == L.length(data) + c, c >= 0,
                     L.Implies(c == 0, L.forall(0, L.length(data), lambda k: L.at(result, k) == L.at(data, k))))

    loops = {0: LoopAnn('bytes', lambda v, j: L.And(
        delim_count(v.E, v.data) >= 0,
        L.length(v.array) == j + v.E.fold_state('delims', v.data, j, unfold=True), v.E.fold_state('delims', v.data, j) >= 0,
        L.Implies(v.E.fold_state('delims', v.data, j) == 0, L.forall(0, j, lambda k: L.at(v.array, k) == L.at(v.data, k)))))}


def get_units():
    regs_loops = {}
    for c in CODECS.values():
        regs_loops.update(c.loops)
    cs = (K.PackBitstring(), AnyEncode(), K.ComputeCRC(), K.ComputeLRC(), PreflightLen())
    us = []
    for fc in (1, 2, 3, 4, 23):
        us.append(Unit('C14/size.fc%02d' % fc, read_size(fc), ['C14'], contracts=(K.PackBitstring(),), loops=regs_loops,
                       functions=[M.REQ[fc] + '.get_response_pdu_size', M.RSP[fc] + '.encode']))
    for fc in (5, 6, 15, 16):
        us.append(Unit('C14/size.fc%02d' % fc, echo_size(fc), ['C14'], functions=[M.REQ[fc] + '.get_response_pdu_size', M.RSP[fc] + '.encode']))
    us.append(Unit('C14/size.fc22', mask_write_size, ['C14'], functions=[M.REQ[22] + '.get_response_pdu_size', M.RSP[22] + '.encode']))
    us.append(Unit('C14/size.classes-covered', uncovered_lemma, ['C14']))
    for fq, nm in ((RTU, 'rtu'), (ASCII, 'ascii'), (BINARY, 'binary'), (TLS, 'tls'), (SOCKET, 'socket')):
        us.append(Unit('C14/adu.%s' % nm, adu_overhead(fq, nm), ['C14'], contracts=cs,
                       functions=[TM + '._set_adu_size', TM + '._calculate_response_length', fq + '.buildPacket']))
        us.append(Unit('C14/exception.%s' % nm, exception_length(fq, nm), ['C14'], contracts=cs[2:],
                       functions=[TM + '._calculate_exception_length', fq + '.buildPacket']))
    us.append(PreflightLen().unit())
    us.append(K.PackBitstring().unit())
    us.append(K.ComputeLRC().unit())
    return us


# --------------------------------------------------------------------------- FC 8: prediction vs the response the request's own execute() builds
DIAG_REQ = ['ReturnQueryData', 'RestartCommunicationsOption', 'ReturnDiagnosticRegister', 'ChangeAsciiInputDelimiter', 'ForceListenOnlyMode', 'ClearCounters',
            'ReturnBusMessageCount', 'ReturnBusCommunicationErrorCount', 'ReturnBusExceptionErrorCount', 'ReturnSlaveMessageCount', 'ReturnSlaveNoResponseCount',
            'ReturnSlaveNAKCount', 'ReturnSlaveBusyCount', 'ReturnSlaveBusCharacterOverrunCount', 'ReturnIopOverrunCount', 'ClearOverrunCount', 'GetClearModbusPlus']


def diag_size(name):
    def lemma(E):
        if name == 'ReturnQueryData':
            msg = E.ints('words', 0, 65536, 1, 125)
        elif name == 'RestartCommunicationsOption':
            msg = [E.choice('toggle', [0xFF00, 0x0000])]
        elif name == 'GetClearModbusPlus':
            msg = E.choice('operation', [3, 4])
        else:
            msg = E.int('word', 0, 65536)
        req = E.obj(C.DG + name + 'Request', message=msg, **C.BASE)
        resp = E.method(req, 'execute')
        enc = E.method(resp, 'encode')
        predicted = E.method(req, 'get_response_pdu_size')
        fk = {'finding': 'C14-F1', 'region': True} if name == 'GetClearModbusPlus' else {}
        if E.get(resp, 'should_respond'):
            E.prove('predicted==1+len(response built by execute)', predicted == 1 + L.length(enc), **fk)
        else:
            E.prove('listen-only: no reply is expected', True)
    return lemma


_get_units0 = get_units


def get_units():
    us = _get_units0()
    loops = {}
    for c in CODECS.values():
        loops.update(c.loops)
    for nm in DIAG_REQ:
        us.append(Unit('C14/size.diag.%s' % nm, diag_size(nm), ['C14'], contracts=(K.PackBitstring(),), loops=loops,
                       functions=[C.DG + nm + 'Request.execute', C.DG + 'DiagnosticStatusRequest.get_response_pdu_size']))
    return us


# --------------------------------------------------------------------------- the read itself: _recv asks the transport for exactly the reply frame
# Given the three facts above (predicted PDU size, ADU overhead, exception length each equal to the real thing), what remains of "reads
# exactly the reply frame" is the reader: from a transport that holds exactly the reply frame F - a normal reply of the predicted length
# or an exception reply of the specified exception-ADU length - _recv requests, over all its reads together, exactly len(F) bytes (it
# neither stops short of the checksum nor asks for bytes that never come) and returns F.
from spec import checks as CK

EXC_ADU = {'rtu': 5, 'ascii': 11, 'binary': 7, 'socket': 9, 'tls': 2}        # unit + fc|0x80 + code + framing, MODBUS over serial line v1.02 / MBAP
FQ = {'rtu': RTU, 'ascii': ASCII, 'binary': BINARY, 'socket': SOCKET, 'tls': TLS}


def frame_fc(kind, f):
    if kind == 'rtu':
        return L.at(f, 1)
    if kind == 'binary':
        return L.at(f, 2)
    if kind == 'socket':
        return L.at(f, 7)
    if kind == 'tls':
        return L.at(f, 0)
    return CK.hexval(L.at(f, 3)) * 16 + CK.hexval(L.at(f, 4))


def recv_exact(kind, reply):
    def lemma(E):
        tm, fr = manager(E, FQ[kind])
        client = E.get(tm, 'client')
        E.set(fr, 'client', client)
        frame = E.bytes('frame', EXC_ADU[kind] if reply == 'exception' else {'rtu': 4, 'ascii': 9, 'binary': 6, 'socket': 8, 'tls': 2}[kind], 600)
        n = L.length(frame)
        if kind == 'ascii':
            E.assume(L.And(CK.hexval(L.at(frame, 3)) >= 0, CK.hexval(L.at(frame, 4)) >= 0))      # a frame: the function code is two hex digits
        fc = frame_fc(kind, frame)
        if reply == 'exception':
            E.assume(L.And(fc >= 0x80, n == EXC_ADU[kind]))
            expected = E.int('predicted_normal_length', 4, 600) if kind != 'socket' else None       # whatever was predicted for the normal reply
        else:
            E.assume(fc < 0x80)
            expected = n if kind != 'socket' else None
        if kind == 'socket':
            E.assume(P_u16(frame, 4) == n - 6)                                                     # MBAP length = unit id + PDU
        pos, asked = [0], [0]

        def recv(size):
            E.prove('read:size-is-a-non-negative-count', size >= 0)
            lo = pos[0]
            hi = L.minimum(lo + size, n)
            pos[0] = hi
            asked[0] = asked[0] + size
            return E.as_bytes(L.slice_(frame, lo, hi))
        E.set(client, 'recv', E.callback(recv, 'recv'))
        E.set(client, 'state', 2)
        E.set(client, 'last_frame_end', 0)
        out = E.attempt(lambda: E.method(tm, '_recv', expected, False))
        # TLS: the reader asks for the whole predicted normal length first and rejects anything shorter, so an exception reply (2 bytes) is never read as such
        fk = {'finding': 'C14-F3', 'region': expected != n} if (kind == 'tls' and reply == 'exception') else {}
        E.prove('read:no-exception', out.ok, **fk)
        if not out.ok:
            return
        E.prove('read:requests-exactly-the-reply-frame(not-short-of-the-checksum,not-waiting-for-more)', asked[0] == n)
        E.prove('read:returns-the-frame', L.eq(out.value, frame))
    return lemma


def P_u16(b, i):
    return L.at(b, i) * 256 + L.at(b, i + 1)


def recv_twin(kind, reply):
    def make(g):
        r = g.r
        from .framers import concrete_frame
        uid = r.choice([1, 17, 127, 128, 200, 247])
        if reply == 'exception':
            pdu = [r.randrange(0x81, 0x100), r.randrange(1, 12)]
        else:
            pdu = [r.randrange(1, 0x80)] + [r.randrange(256) for _ in range(r.choice([1, 2, 4, 5, 9, 40]))]
        if kind == 'binary':
            pdu = [b if b not in (0x7B, 0x7D) else 0x11 for b in pdu]
        fr = concrete_frame(kind, uid, pdu, r.randrange(65536)) if kind != 'tls' else list(pdu)
        return {'frame': {'items': fr}, 'predicted_normal_length': r.randrange(4, 300)}
    return make


_get_units1 = get_units


def get_units():
    us = _get_units1()
    for kind in ('rtu', 'ascii', 'binary', 'socket', 'tls'):
        for reply in ('normal', 'exception'):
            us.append(Unit('C14/read.%s.%s' % (kind, reply), recv_exact(kind, reply), ['C14'], twin=recv_twin(kind, reply),
                           functions=[TM + '._recv', TM + '._calculate_exception_length', FQ[kind] + '.recvPacket']))
    return us
