"""C13 - client transactions end in bounded time with a result and recover.

The property is decomposed along the call structure of ModbusTransactionManager.execute; every piece is a lemma over the real code:
  init            the retry options given to the manager are the ones it uses
  decoder         ClientDecoder.decode lets no exception out, whatever _helper raises (so a framer's decode step yields a message or None)
  transact.<k>    real _transact / _recv / _send with a transport that returns anything or raises: at most ONE frame is written per call; a
                  transport error is caught, closes the connection and yields (b'', error); nothing else escapes (known: ASCII garbage)
  framer.<k>      real processIncomingPacket from any framer state, on any bytes, with a decoder that yields a message or None: the only
                  exception that can leave is the one execute catches (ModbusIOException) - known exceptions per framing are findings
  sends.<k>       execute with the retry loop cut at the invariant  frames written + retries left == retries + 1: the request is
                  transmitted at most 1 + retries times, for every retries value and every transport behaviour
  result.<k>      execute, given transact/framer as established above: never raises, returns a message or a ModbusIOException, and leaves
                  client.state == TRANSACTION_COMPLETE and no reply slot behind (ready for the next call, which resets the framer itself)
  retrystep.<k>   every retries value (loop invariant attempts + retries left == retries + 1): the loop goes round only after a reply that is not
                  the valid one, is left only on a reply that is neither (nothing, retry_on_empty) nor (foreign, retry_on_invalid), and the reply
                  it was left on is the one handed to the framer - by induction a valid reply after k <= retries such replies is returned
  retry.<k>       bounded cross-check (retries 1..2, loop unrolled) of the same statement as a script
  recover.<k>     bounded stand-in (executable twin only): scripts of faulty exchanges followed by a healthy one on the same real client
                  object; the healthy exchange returns its own reply
Hanging: every loop of execute/_transact/_recv is bounded by the retry counter (sends lemma, variant) - blocking inside the transport's
recv is the transport's timeout (external)."""
from pyvc.unit import Unit, LoopAnn
from pyvc import lang as L
from . import framers as F
from . import client as CL
from . import codec_contracts as K
from .C08 import _set_local

TRUSTED = []
ASSUMPTIONS = ['transport abstracted: connect/close/send/recv are havoc-ed callbacks; a blocking recv returns within the socket/serial timeout (external)',
               'time.sleep (backoff, RTU inter-frame wait) returns (external)',
               'RTU sendPacket waiting loop: leaves through the timeout branch at the latest (time.time advances; external clock)',
               'retry options: the per-iteration clauses of retrystep.<kind> (exact count, goes round only after a non-valid reply, left only on a reply that is not (empty, retry_on_empty) / (foreign, retry_on_invalid), the reply it was left on is handed to the framer) are discharged for every retries value; their composition by induction over the attempts is a hand argument (DESIGN 10.2); the scripted retry.<kind>.on_<option>.<n> units (n = 1, 2, loop unrolled) remain as bounded cross-checks and are not counted as proved; recovery scripts are a bounded executable stand-in',
               'the call-site abstractions TransactCounted and FramerQuiet are hand-written; what they assume is what C13/transact.<kind>, C13/framer.<kind>, C13/decoder (and C08/filter, C08/transact) prove on the real code, minus the escaping exception classes recorded as findings C13-F3..F6 - correspondence by inspection',
               'computeCRC / computeLRC contracts are verified in the C03 and C07 checks']
PROP = 'C13'
CS = (K.ComputeCRC(), K.ComputeLRC())
TMQ = CL.TMQ
COMPLETE = 6
KINDS = ('socket', 'rtu', 'ascii', 'binary')


# --------------------------------------------------------------------------- init / decoder
def init_lemma(E):
    r = E.int('retries', 0, 10)
    roe, roi = E.bool('retry_on_empty'), E.bool('retry_on_invalid')
    tm = E.new(CL.TM, None, retries=r, retry_on_empty=roe, retry_on_invalid=roi)
    E.prove('init:retries-option-is-used-as-given', tm.retries == r)          # (C13-F2, retries=0 becoming 1, was repaired in /repo)
    E.prove('init:retry-flags-are-used-as-given', L.And(L.Iff(L.truth(tm.retry_on_empty), roe), L.Iff(L.truth(tm.retry_on_invalid), roi)))


EXC_ANY = ['Exception', 'struct.error', 'IndexError', 'KeyError', 'TypeError', 'ValueError', 'ModbusException', 'AttributeError']


class HelperRaisesAnything(CL.Custom):
    def __init__(self):
        def fn(E, I, dec, data):
            k = E.choice('helper_outcome', ['message'] + EXC_ANY)
            if k == 'message':
                return E.obj('pymodbus.pdu.ModbusResponse', transaction_id=0, protocol_id=0, unit_id=0, skip_encode=False, check=0, function_code=3)
            raise E.Raised(k)
        CL.Custom.__init__(self, 'pymodbus.factory.ClientDecoder._helper', fn)


def decoder_lemma(E):
    dec = E.new('pymodbus.factory.ClientDecoder')
    data = E.bytes('pdu', 0, 260)
    if E.mode == 'symbolic':
        out = E.attempt(lambda: E.method(dec, 'decode', data))
    else:
        out = E.attempt(lambda: E.method(dec, 'decode', bytes(data)))
    E.prove('decoder:no-exception-leaves-ClientDecoder.decode', out.ok)
    if out.ok:
        E.prove('decoder:yields-a-message-or-None', out.value is None or E.has(out.value, 'function_code'))


# --------------------------------------------------------------------------- _transact under transport faults
def transact_lemma(kind):
    def lemma(E):
        wire, rec = CL.Wire(), F.Rec()
        fault = [None]

        def transport(i, size):
            k = E.choice('read%d' % i, ['data', 'OSError', 'socket.timeout', 'ConnectionResetError']) if i < 2 else 'data'
            if k != 'data':
                fault[0] = k
                raise E.Raised(k)
            d = E.bytes('rx%d' % i, 0, 300)
            if size is None:
                return d
            if E.mode == 'symbolic':
                E.assume(L.length(d) <= size)
                return d
            return d[:max(size, 0)]
        client, tm, f = CL.make_client(E, kind, wire, rec, 0, False, False, transport)
        req, uid, n = CL.request(E)
        exp = E.int('expected_response_length', 4, 300) if E.choice('length_predicted', [True, False]) else None
        full = E.bool('full')
        out = E.attempt(lambda: E.method(tm, '_transact', req, exp, full=full, broadcast=False))
        nonhex = False
        if kind == 'ascii' and len(wire.reads) >= 1 and fault[0] is None:
            first = wire.reads[0][1]
            from spec import checks as CK
            nonhex = L.And(L.length(first) == 5, L.Or(CK.hexval(L.at(first, 3)) < 0, CK.hexval(L.at(first, 4)) < 0))
        E.prove('transact:no-exception-escapes', out.ok, raised=(out.exc.cls if not out.ok else None), finding='C13-F3', region=nonhex)
        E.prove('transact:at-most-one-frame-written', len(wire.sent) <= 1)
        # every attempt (re)connects before it writes: the attempt before it may have closed the connection (a retry depends on it)
        E.prove('transact:connects-before-it-writes', len(wire.events) >= 1 and wire.events[0] == 'connect')
        if out.ok:
            r = out.value
            # the shape the call-site contract TransactCounted hands to execute: (bytes, None) or (nothing, the error)
            E.prove('transact:result-is-(bytes,None)-or-(nothing,error)', L.Or(r[1] is None, L.length(r[0]) == 0))
            if fault[0] is None and not full and len(wire.reads) >= 1:
                # silence (the read timed out with nothing) ends the attempt like a transport error: connection closed, so that the reply,
                # should it still come, cannot be read by a later attempt or transaction
                E.prove('transact:silence->connection-closed-and-empty-result',
                        L.Implies(L.length(wire.reads[0][1]) == 0, L.And(wire.closes >= 1, L.length(r[0]) == 0, r[1] is not None)))
            if fault[0] is not None:
                E.prove('transact:transport-error->connection-closed-and-empty-result', L.And(wire.closes >= 1, L.length(r[0]) == 0, r[1] is not None))
    return lemma


# --------------------------------------------------------------------------- what a framer may raise
def framer_lemma(kind):
    def lemma(E):
        rec = F.Rec()
        osz = E.int('oracle_size', 4, 70000) if kind == 'rtu' else None

        def size(fc, buf):
            if kind == 'rtu' and E.choice('oracle_outcome', ['size', 'IndexError']) == 'IndexError':
                raise E.Raised('IndexError')          # calculateRtuFrameSize indexes the buffer at the class's byte-count position
            return osz
        f = F.arbitrary_framer(E, kind, rec, outcomes=('message', 'none'), size_of=size, empty='none')
        cb = E.callback(F.callback(E, rec), 'callback')
        buf0 = E.get(f, '_buffer')
        out = E.attempt(lambda: E.method(f, 'processIncomingPacket', b'', cb, E.int('unit0', 0, 256), single=False), allow_cut=True)
        if out.cut or out.ok:
            E.prove('framer:reached', True)
            return
        fid, known = {'socket': ('C13-F4', ('InvalidMessageReceivedException',)), 'rtu': ('C13-F5', ('IndexError', 'KeyError')),
                      'ascii': ('C13-F3', ('binascii.Error', 'ValueError')), 'binary': ('C13-F6', ('struct.error',))}[kind]
        E.prove('framer:only-ModbusIOException-leaves-processIncomingPacket', out.exc.isinstance('ModbusIOException'), raised=out.exc.cls,
                finding=fid, region=out.exc.isinstance(*known))
    return lemma


# --------------------------------------------------------------------------- contracts for execute-level lemmas
class TransactCounted(CL.TransactAny):
    """TransactAny + ghost counter of frames written (tm._ghost_sends += at most 1, exactly as transact.<kind> shows) and no escaping exception
    (escapes are the findings of transact.<kind>)"""
    def apply(self, I, args, kw):
        from pyvc.sym import SymE
        E = SymE(I.st, I.cfg)
        E.I = I
        tm, packet = args[0], args[1]
        client = E.get(tm, 'client')
        E.set(client, 'state', E.fresh_int('state_after_transact'))
        if self.kind == 'rtu':
            E.set(packet, 'transaction_id', E.get(packet, 'unit_id'))
        wrote = E.fresh_int('wrote')
        E.assume(L.And(wrote >= 0, wrote <= 1))
        E.set(tm, '_ghost_sends', E.get(tm, '_ghost_sends') + wrote)
        script = CL.CUR.get('script')
        if script is not None:
            return script(E, len(CL.CUR['wire'].reads))
        k = I.st.branch(2, 'transact-outcome')
        data = CL._fresh_bytes(E, 'received', 0, 600)
        CL.CUR['wire'].reads.append((None, data))
        if k == 1:
            E.assume(L.length(data) == 0)
            return (data, E.opaque('transport-error'))
        return (data, None)


class FramerQuiet(CL.FramerDelivers):
    """FramerDelivers restricted to what execute catches: the framer raises ModbusIOException or nothing (other escapes: findings of framer.<kind>)"""
    def apply(self, I, args, kw):
        CL.CUR['only_io'] = True
        try:
            return CL.FramerDelivers.apply(self, I, args, kw)
        finally:
            CL.CUR['only_io'] = False


def sends_ann(ghost):
    """invariant of the retry loop: frames written so far + retries left <= retries + 1, retries left >= 0 (an iteration writes at most one
    frame and either leaves the loop or gives up one retry); variant: retries left"""
    def inv(v, j):
        if ghost.get('any'):
            return True
        return L.And(v.self._ghost_sends + v.retries <= v.self.retries + 1, v.retries >= 0, v.self._ghost_sends >= 0)
    ann = LoopAnn('retry', inv, variant=(None if ghost.get('any') else (lambda v: v.retries)))

    def havoc(v):
        v.E.set(v.self, '_ghost_sends', v.E.fresh_int('sends_so_far'))        # ghost: written by the _transact contract
        r = CL._fresh_bytes(v.E, 'response_of_an_earlier_iteration', 0, 600)
        _set_local(v, 'response', r)
        _set_local(v, 'last_exception', v.E.opaque('transport-error-or-None'))
        if not object.__getattribute__(v, '_exit_path'):
            silent = v.E.st.branch(2, 'unit-in-no-response-list')
            v.E.set(v.self, '_no_response_devices', [v.request.unit_id] if silent else [])
    ann.havoc = havoc
    return ann


def rx_transport(E):
    """the reads of the executable twin / replays come from the inputs rx0, rx1, ...; unused in symbolic mode (the _transact contract answers)"""
    def transport(i, size):
        d = E.bytes('rx%d' % i, 0, 300)
        if size is None:
            return d
        if E.mode == 'symbolic':
            E.assume(L.length(d) <= size)
            return d
        return d[:max(size, 0)]
    return transport


def client_for(E, kind, retries, roe, roi, transport=None, decoder_outcomes=('message',)):
    wire, rec = CL.Wire(), F.Rec()
    client, tm, f = CL.make_client(E, kind, wire, rec, retries, roe, roi, transport or rx_transport(E), decoder_outcomes=decoder_outcomes)
    E.set(tm, '_ghost_sends', 0)
    E.set(tm, '_ghost_attempts', 0)
    E.set(tm, 'tid', 7)
    CL.CUR['last'] = None
    return wire, rec, client, tm, f


def sends_lemma(kind):
    def lemma(E):
        retries = E.int('retries', 0, None)
        wire, rec, client, tm, f = client_for(E, kind, retries, E.bool('retry_on_empty'), E.bool('retry_on_invalid'))
        req, uid, n = CL.request(E)
        out = E.attempt(lambda: E.method(tm, 'execute', req), allow_cut=True)
        if out.cut:
            return
        sends = tm._ghost_sends if E.mode == 'symbolic' else len(wire.sent)
        E.prove('sends:request-transmitted-at-most-1+retries-times', sends <= retries + 1)
    return lemma


def result_lemma(kind):
    def lemma(E):
        retries = E.int('retries', 0, None) if E.mode == 'symbolic' else E.int('retries', 0, 4)
        wire, rec, client, tm, f = client_for(E, kind, retries, E.bool('retry_on_empty'), E.bool('retry_on_invalid'), decoder_outcomes=('message', 'none'))
        if E.choice('stale_bytes_in_framer', [False, True]):
            E.set(f, '_buffer', E.bytes_n('stale_buffer', 5))
        req, uid, n = CL.request(E)
        if E.bool('unit_was_silent_before'):
            E.set(tm, '_no_response_devices', [uid])
        out = E.attempt(lambda: E.method(tm, 'execute', req), allow_cut=True)
        if out.cut:
            return
        # the exceptions that do escape on this tree are the findings of transact.<kind> / framer.<kind>; here: none besides those
        known = {'socket': ('InvalidMessageReceivedException',), 'rtu': ('IndexError', 'KeyError'), 'ascii': ('binascii.Error', 'ValueError'), 'binary': ('struct.error',)}[kind]
        fid = {'socket': 'C13-F4', 'rtu': 'C13-F5', 'ascii': 'C13-F3', 'binary': 'C13-F6'}[kind]
        E.prove('result:execute-does-not-raise', out.ok, raised=(out.exc.cls if not out.ok else None), finding=fid, region=(not out.ok) and out.exc.isinstance(*known))
        if not out.ok:
            return
        r = out.value
        E.prove('result:an-error-object-or-a-message', r is not None and (E.classname(r) == 'ModbusIOException' or E.has(r, 'function_code')))
        E.prove('ready:client-state-is-TRANSACTION_COMPLETE', client.state == COMPLETE)
        # known: a framer that raises after it has delivered a message leaves that message's slot behind (C08-F5 is what the next call then does)
        E.prove('ready:no-reply-slot-left-behind', len(tm.transactions) == 0, finding='C13-F7',
                region=bool(CL.CUR.get('raised_after_delivery')) if E.mode == 'symbolic' else (len(rec.decoded) >= 1 and E.classname(r) == 'ModbusIOException'))
    return lemma


def unit_on_wire(E, kind, d, valid):
    from .C08 import wire_ids
    from spec import checks as CK
    if kind == 'ascii':
        E.assume(L.And(*[CK.hexval(L.at(d, i)) >= 0 for i in (1, 2, 3, 4)]))       # a reply frame: unit id and function code are hex digits
    return wire_ids(kind, d)[0]


# --------------------------------------------------------------------------- retry options honoured (bounded in the retry count)
def retry_lemma(kind, option, retries):
    """script: `retries` bad replies (nothing for retry_on_empty, a well-formed reply of another unit for retry_on_invalid), then the valid
    reply: it is the one execute works on.  Symbolic mode scripts the _transact contract; concrete mode scripts the transport under the real code."""
    def lemma(E):
        both = E.bool('other_option_also_set')
        roe = True if option == 'empty' else both
        roi = True if option == 'invalid' else both
        state = {'pending': b''}

        def transport(i, size):
            data = state['pending']
            if size is None:
                state['pending'] = b''
                return data
            state['pending'] = data[size:]
            return data[:size]
        wire, rec, client, tm, f = client_for(E, kind, retries, roe, roi, transport=transport)
        req, uid, n = CL.request(E)
        E.assume(L.And(uid != 0, uid != 255, uid != 254))
        if kind == 'binary':
            E.assume(L.Or(uid < 0x7A, uid > 0x7D))        # delimiter bytes as unit id: C03-F1
        fk = {}          # (C13-F1, retry_on_empty alone never retrying, was repaired in /repo)
        if E.mode != 'symbolic':
            E.set(req, 'count', 1)                       # the scripted replies carry one register
            for k in range(12):
                E.inputs['oracle_size_%d' % k] = 7       # RTU length oracle of the stub decoder: the true length of the scripted frames
            good = bytes(F.concrete_frame(kind, uid, [3, 2, 0x12, 0x34], 8 if kind == 'socket' else 0))
            other = bytes(F.concrete_frame(kind, uid + 1, [3, 2, 0x56, 0x78], 8 if kind == 'socket' else 0))
            if kind == 'binary':
                E.assume(not any(b in (0x7B, 0x7D) for b in good[1:-1] + other[1:-1]))      # delimiter bytes inside a binary frame: C03-F1
            real_send = client.send

            def send(msg):
                k = len(wire.sent)            # this is transmission number k + 1
                state['pending'] = (b'' if option == 'empty' else other) if k < retries else good
                return real_send(msg)
            E.set(client, 'send', send)
            out = E.attempt(lambda: E.method(tm, 'execute', req))
            E.prove('retry:no-exception', out.ok)
            r = out.value if out.ok else None
            mine = [d for d in rec.decoded if d[3] is r]
            E.prove('retry:the-valid-reply-within-the-budget-is-the-one-handed-to-the-framer', len(mine) == 1 and bytes(mine[0][0]) == bytes([3, 2, 0x12, 0x34]), **fk)
            return
        calls = [0]

        def script(E2, i):
            calls[0] += 1
            if calls[0] <= retries:
                if option == 'empty':
                    d = b''
                else:
                    d = CL._fresh_bytes(E2, 'foreign', 8, 64)
                    E2.assume(unit_on_wire(E2, kind, d, False) != uid)
            else:
                d = CL._fresh_bytes(E2, 'valid', 8, 64)
                E2.assume(unit_on_wire(E2, kind, d, True) == uid)
                CL.CUR['valid'] = d
            CL.CUR['wire'].reads.append((None, d))
            return (d, None)
        CL.CUR['script'] = script
        CL.CUR['valid'] = None
        try:
            out = E.attempt(lambda: E.method(tm, 'execute', req))
        finally:
            CL.CUR['script'] = None
        E.prove('retry:no-exception', out.ok)
        handed = [d for (d, bl) in wire.handed]
        got_valid = CL.CUR['valid'] is not None and any(d is CL.CUR['valid'] for d in handed)
        E.prove('retry:the-valid-reply-within-the-budget-is-the-one-handed-to-the-framer', got_valid, **fk)
    return lemma



# --------------------------------------------------------------------------- retry options honoured, for every retry count (loop invariant)
class TransactStep(TransactCounted):
    """TransactCounted + ghost: tm._ghost_attempts += 1 (one call = one attempt), CUR['last'] = the bytes this attempt received"""
    def apply(self, I, args, kw):
        from pyvc.sym import SymE
        r = TransactCounted.apply(self, I, args, kw)
        E = SymE(I.st, I.cfg)
        E.I = I
        tm = args[0]
        E.set(tm, '_ghost_attempts', E.get(tm, '_ghost_attempts') + 1)
        CL.CUR['last'] = r[0]
        return r


def _reply_kind(E, kind, d, uid):
    """(valid, foreign) of the received bytes d: a frame-sized reply whose unit id on the wire is / is not the request's"""
    if kind == 'ascii':
        from spec import checks as CK
        hexd = L.And(*[CK.hexval(L.at(d, i)) >= 0 for i in (1, 2, 3, 4)])
    else:
        hexd = True
    from .C08 import wire_ids
    w = wire_ids(kind, d)[0]
    framed = L.And(L.length(d) >= 8, hexd)
    return L.And(framed, w == uid), L.And(framed, w != uid)


def step_ann(kind):
    """retry loop, exact count: attempts made + retries left == retries + 1 - an iteration that goes round gives up exactly one retry - and it
    goes round only after a reply that is not the valid one (ghost CUR['last'] = what this iteration's attempt received)"""
    def inv(v, j):
        c = L.And(v.self._ghost_attempts + v.retries == v.self.retries + 1, v.retries >= 0, v.self._ghost_attempts >= 0)
        d = CL.CUR.get('last')
        if d is None:
            return c
        valid, foreign = _reply_kind(v.E, kind, d, v.request.unit_id)
        return L.And(c, L.Not(valid))
    ann = LoopAnn('retrystep', inv, variant=lambda v: v.retries)

    def havoc(v):
        v.E.set(v.self, '_ghost_sends', v.E.fresh_int('sends_so_far'))
        v.E.set(v.self, '_ghost_attempts', v.E.fresh_int('attempts_so_far'))
        CL.CUR['last'] = None
        _set_local(v, 'response', CL._fresh_bytes(v.E, 'response_of_an_earlier_iteration', 0, 600))
        _set_local(v, 'last_exception', v.E.opaque('transport-error-or-None'))
        silent = v.E.st.branch(2, 'unit-in-no-response-list')
        v.E.set(v.self, '_no_response_devices', [v.request.unit_id] if silent else [])
    ann.havoc = havoc
    return ann


def retrystep_lemma(kind):
    """one arbitrary iteration of the retry loop and what follows it, for every retries value.  Discharged here:
      count    attempts + retries left == retries + 1 at the loop head (so the k-th attempt is made iff k <= retries + 1 and no earlier one left)
      round    the loop goes round only after a reply that is not the valid one (a valid reply is never given up for a retry)
      leave    it is left by `break` only on a reply that is neither (nothing, retry_on_empty set) nor (a foreign frame, retry_on_invalid set)
      handed   the reply it was left on is the one handed to the framer
    By induction over the attempts (composition by hand, stated in DESIGN 10.2): after k <= retries empty (resp. foreign) replies with the
    option set, attempt k + 1 is made, and a valid reply to it is the one the framer works on.  The executable side runs the scripts."""
    def lemma(E):
        if E.mode != 'symbolic':
            option = E.choice('option', ['empty', 'invalid'])
            return retry_lemma(kind, option, E.int('retries', 0, 6))(E)
        retries = E.int('retries', 0, None)
        roe, roi = E.bool('retry_on_empty'), E.bool('retry_on_invalid')
        wire, rec, client, tm, f = client_for(E, kind, retries, roe, roi)
        req, uid, n = CL.request(E)
        E.assume(L.And(uid != 0, uid != 255, uid != 254))
        out = E.attempt(lambda: E.method(tm, 'execute', req), allow_cut=True)
        if out.cut:
            return
        d = CL.CUR.get('last')
        if d is None:
            # the loop test failed: the budget is used up
            E.prove('retry:loop-left-without-break-only-when-1+retries-attempts-were-made', tm._ghost_attempts == retries + 1)
            return
        valid, foreign = _reply_kind(E, kind, d, uid)
        E.prove('retry:not-left-on-an-empty-reply-while-retry_on_empty-is-set', L.Not(L.And(L.length(d) == 0, roe)))
        E.prove('retry:not-left-on-a-foreign-reply-while-retry_on_invalid-is-set', L.Not(L.And(foreign, roi)))
        E.prove('retry:attempt-was-within-the-budget', tm._ghost_attempts <= retries + 1)
        if len(wire.handed) >= 1:
            E.prove('retry:the-reply-the-loop-was-left-on-is-the-one-handed-to-the-framer', wire.handed[-1][0] is d)
        else:
            E.prove('retry:the-reply-the-loop-was-left-on-is-the-one-handed-to-the-framer', not out.ok)
    return lemma

# --------------------------------------------------------------------------- recovery (bounded, executable twin only)
def recover_lemma(kind):
    def lemma(E):
        wire, rec = CL.Wire(), F.Rec()
        nfault = E.choice('faulty_exchanges', [0, 1, 2, 3])
        plan = []
        for j in range(nfault):
            plan.append(E.choice('fault%d' % j, ['nothing', 'short', 'garbage', 'other-unit', 'OSError', 'peer-close', 'own-reply-cut']))
        uid = E.choice('unit', [1, 17, 200])
        state = {'call': 0, 'reads': 0}
        good = F.concrete_frame(kind, uid, [3, 2, 0x12, 0x34], 0)

        def frame_for(call_no, tid):
            fr = F.concrete_frame(kind, uid, [3, 2, 0x12, 0x34], tid)
            if call_no >= nfault:
                return bytes(fr)
            k = plan[call_no]
            if k == 'nothing':
                return b''
            if k == 'short':
                return bytes(fr[:3])
            if k == 'garbage':
                return bytes((b * 7 + 3) % 256 for b in fr)
            if k == 'other-unit':
                return bytes(F.concrete_frame(kind, (uid + 1) % 200 + 1, [3, 2, 0x12, 0x34], tid))
            if k == 'own-reply-cut':
                return bytes(fr[:-2])
            return k

        def transport(i, size):
            data = state['pending']
            if isinstance(data, str):
                state['pending'] = b''
                raise E.Raised('OSError' if data == 'OSError' else 'ConnectionResetError')
            if size is None:
                state['pending'] = b''
                return data
            state['pending'] = data[size:]
            return data[:size]
        client, tm, f = CL.make_client(E, kind, wire, rec, E.choice('retries', [0, 1, 3]), E.bool('retry_on_empty'), E.bool('retry_on_invalid'), transport)
        E.set(tm, 'tid', 0)
        E.set(client, 'state', 0)
        for k in range(40):
            E.inputs['oracle_size_%d' % k] = 7           # RTU length oracle of the stub decoder: the true length of the scripted frames
        last = None
        for c in range(nfault + 1):
            req, _, _ = CL.request(E)
            E.set(req, 'unit_id', uid)
            E.set(req, 'count', 1)
            state['pending'] = frame_for(c, (tm.tid + 1) % 65536)
            n0 = len(wire.sent)
            out = E.attempt(lambda: E.method(tm, 'execute', req))
            known = {'socket': ('InvalidMessageReceivedException',), 'rtu': ('IndexError', 'KeyError'), 'ascii': ('binascii.Error', 'ValueError'), 'binary': ('struct.error',)}[kind]
            fid = {'socket': 'C13-F4', 'rtu': 'C13-F5', 'ascii': 'C13-F3', 'binary': 'C13-F6'}[kind]
            E.prove('recover:call-returns-(no-exception)[call %d]' % c, out.ok, finding=fid, region=(not out.ok) and out.exc.isinstance(*known))
            E.prove('recover:at-most-1+retries-frames-written[call %d]' % c, len(wire.sent) - n0 <= max(tm.retries, 0) + 1)
            last = out.value if out.ok else None          # an escaped exception does not excuse the next call: recovery is still required
        mine = [d for d in rec.decoded if d[3] is last]
        E.prove('recover:the-healthy-exchange-after-the-faults-returns-its-own-reply', len(mine) == 1 and bytes(mine[0][0]) == bytes([3, 2, 0x12, 0x34]))
    return lemma


def tcp_recv_deadline(E):
    """bounded time inside the one transport read the library loops in itself (ModbusTcpClient._recv: select/recv until `size` bytes or the
    deadline): the deadline `end` is fixed before the loop and no iteration moves it, and every iteration ends with `if time_ > end: break` on
    a clock value taken in that iteration - so with an advancing clock the loop leaves at the deadline whatever the socket does (readable for
    ever after a peer close, trickling bytes, silence).  Frame condition decided on the AST (pyvc/ownership.py); the clock is external."""
    from pyvc import ownership as O
    q = 'pymodbus.client.sync.ModbusTcpClient._recv'
    ok, detail = O.loop_has_fixed_deadline(q)
    E.prove('deadline:the-receive-loop-leaves-at-a-deadline-it-never-moves', ok, backend='ownership', detail=detail)


def get_units():
    us = [Unit('%s/init' % PROP, init_lemma, [PROP], functions=[TMQ + '.__init__']),
          Unit('%s/decoder' % PROP, decoder_lemma, [PROP], contracts=(HelperRaisesAnything(),), functions=['pymodbus.factory.ClientDecoder.decode'])]
    u = Unit('%s/tcp_recv.deadline' % PROP, tcp_recv_deadline, [PROP], functions=['pymodbus.client.sync.ModbusTcpClient._recv'])
    u.backend = 'ownership'
    us.append(u)
    from . import C08 as _C08
    for kind in KINDS:
        fq = F.QUAL[kind]
        # "a frame for another unit" is not the reply: what the framer hands to the client's callback carries the wire unit id and passed
        # the unit filter (the lemma C08/filter.<kind>, here because the clause is C13's as well)
        if kind != 'socket':       # TCP: the socket framer's error path delivers past the filter (C08-F4 / C13-F4: recorded there)
            us.append(Unit('%s/filter.%s' % (PROP, kind), _C08.filter_lemma(kind), [PROP], contracts=_C08.CS, loops=F.loop_anns(kind),
                           functions=[fq + '.processIncomingPacket', fq + '._process', fq + '.populateResult', 'pymodbus.framer.ModbusFramer._validate_unit_id']))
        us.append(Unit('%s/transact.%s' % (PROP, kind), transact_lemma(kind), [PROP], contracts=CS,
                       functions=[TMQ + '._transact', TMQ + '._recv', TMQ + '._send', fq + '.buildPacket', fq + '.sendPacket', fq + '.recvPacket']))
        us.append(Unit('%s/framer.%s' % (PROP, kind), framer_lemma(kind), [PROP], contracts=CS, loops=F.loop_anns(kind),
                       functions=[fq + '.processIncomingPacket', fq + '._process', fq + '.checkFrame', fq + '.isFrameReady']))
        cs = (TransactCounted(kind), FramerQuiet(kind))
        us.append(Unit('%s/sends.%s' % (PROP, kind), sends_lemma(kind), [PROP], contracts=cs, loops={(TMQ + '.execute', 0): sends_ann({})}, functions=[TMQ + '.execute']))
        ann = sends_ann({'any': True})
        ann.exit_any = True
        us.append(Unit('%s/result.%s' % (PROP, kind), result_lemma(kind), [PROP], contracts=cs, loops={(TMQ + '.execute', 0): ann}, functions=[TMQ + '.execute']))
        for option in ('empty', 'invalid'):
            for retries in (1, 2):
                u = Unit('%s/retry.%s.on_%s.%d' % (PROP, kind, option, retries), retry_lemma(kind, option, retries), [PROP], contracts=cs,
                         unroll={(TMQ + '.execute', 0): retries + 1}, bounded=True, functions=[TMQ + '.execute'])
                us.append(u)
        us.append(Unit('%s/retrystep.%s' % (PROP, kind), retrystep_lemma(kind), [PROP], contracts=(TransactStep(kind), FramerQuiet(kind)),
                       loops={(TMQ + '.execute', 0): step_ann(kind)}, functions=[TMQ + '.execute', F.QUAL[kind] + '.decode_data']))
        u = Unit('%s/recover.%s' % (PROP, kind), recover_lemma(kind), [PROP], functions=[TMQ + '.execute', fq + '.processIncomingPacket'])
        u.concrete_only, u.bounded = True, True
        us.append(u)
    return us
