"""S-SERVE: the server step every front-end must implement (property statements C09, C10, C12, C17, C05):
unit lookup, broadcast, missing-slave policy, exception mapping, id echo, should_respond.  One lemma
(serve_lemma) is instantiated for each of the seven execute/send pairs; all of them are proved against this same
specification, so equal inputs give equal responses and equal effects on the store (C17) without running one
front-end against another."""
from pyvc import lang as L
from spec import adu as A

SY, AIO, TW = 'pymodbus.server.sync.', 'pymodbus.server.async_io.', 'pymodbus.server.asynchronous.'
SOCKET = 'pymodbus.framer.socket_framer.ModbusSocketFramer'
CTX = 'pymodbus.datastore.context.ModbusServerContext'

# front-end: (handler class, execute method, has broadcast option, how a frame leaves the process)
FRONTENDS = {
    'sync.tcp': (SY + 'ModbusConnectedRequestHandler', 'execute', True),
    'sync.serial': (SY + 'ModbusSingleRequestHandler', 'execute', True),
    'sync.udp': (SY + 'ModbusDisconnectedRequestHandler', 'execute', True),
    'asyncio.tcp': (AIO + 'ModbusConnectedRequestHandler', 'execute', True),
    'asyncio.udp': (AIO + 'ModbusDisconnectedRequestHandler', 'execute', True),
    'twisted.tcp': (TW + 'ModbusTcpProtocol', '_execute', False),
    'twisted.udp': (TW + 'ModbusUdpProtocol', '_execute', False),
}
FUNCS = {k: [v[0] + '.' + v[1], v[0] + ('.send' if not k.startswith('twisted') else '._send')] for k, v in FRONTENDS.items()}


class World:
    """ghost state of one lemma run: frames written to the peer, contexts a request was executed against"""
    def __init__(self):
        self.sent = []          # (frame bytes, destination or None)
        self.executed = []      # context handles


def make_request(E, W, outcomes):
    """an arbitrary decoded request: ids and function code symbolic; execute(ctx) records ctx and then, by case
    split: returns a normal response, returns an exception response, or raises (datastore failure)"""
    fc = E.int('fc', 1, 128)
    uid, tid = E.int('unit_id', 0, 256), E.int('transaction_id', 0, 65536)
    payload = E.bytes('response_payload', 0, 250)
    should = E.bool('should_respond')
    state = {}

    def execute(ctx):
        W.executed.append(ctx)
        k = E.choice('execute_outcome', outcomes)
        state['outcome'] = k
        if k == 'raises':
            # what a datastore (a user-supplied context / block included) fails with: any Exception other than the two the front-ends
            # reserve for "no such unit"
            raise E.Raised(E.choice('datastore_failure', ['ValueError', 'KeyError', 'IndexError', 'IOError']))
        code = fc if k == 'normal' else fc + 128
        return E.obj('pymodbus.pdu.ModbusResponse', transaction_id=0, protocol_id=0, unit_id=0, skip_encode=False, check=0, function_code=code,
                     should_respond=(should if k == 'normal' else True), encode=E.callback(lambda: payload, 'encode'))
    req = E.obj('pymodbus.pdu.ModbusRequest', transaction_id=tid, protocol_id=0, unit_id=uid, skip_encode=False, check=0, function_code=fc,
                execute=E.callback(execute, 'execute'))
    return req, dict(fc=fc, uid=uid, tid=tid, payload=payload, should=should, state=state)


def make_handler(E, W, fe, context, broadcast, ignore_missing):
    cls, meth, has_bc = FRONTENDS[fe]
    framer = E.new(SOCKET, E.opaque('decoder'))
    addr = ('peer', 502)

    def out(frame, *dest, **kw):
        W.sent.append((frame, dest[0] if dest else kw.get('addr')))
        return L.length(frame)
    if fe.startswith('sync'):
        server = E.obj(SY + 'ModbusTcpServer', context=context, broadcast_enable=broadcast, ignore_missing_slaves=ignore_missing)
        sock = E.stub('socket', {'send': out, 'sendto': out})
        h = E.obj(cls, server=server, framer=framer, request=sock, socket=sock, client_address=addr, running=True)
        args = ()
    elif fe.startswith('asyncio'):
        server = E.obj(AIO + 'ModbusTcpServer', context=context, broadcast_enable=broadcast, ignore_missing_slaves=ignore_missing)
        tr = E.stub('transport', {'write': out, 'sendto': out})
        h = E.obj(cls, server=server, framer=framer, transport=tr, running=True)
        args = (None,) if fe.endswith('tcp') else (addr,)
    elif fe == 'twisted.tcp':
        factory = E.obj(TW + 'ModbusServerFactory', store=context, ignore_missing_slaves=ignore_missing, control=E.new('pymodbus.device.ModbusControlBlock'))
        tr = E.stub('transport', {'write': out})
        h = E.obj(cls, factory=factory, framer=framer, transport=tr)
        args = ()
    else:
        tr = E.stub('transport', {'write': out})
        h = E.obj(cls, store=context, ignore_missing_slaves=ignore_missing, control=E.new('pymodbus.device.ModbusControlBlock'), framer=framer, transport=tr)
        args = (addr,)
    return h, meth, args, addr


def multi_context(E):
    """multi-unit server context over an arbitrary set of hosted unit ids (contexts are opaque handles)"""
    slaves = E.intmap('slaves')
    return E.obj(CTX, single=False, _slaves=slaves), slaves


def expected_frame(req, info, code, payload):
    return A.mbap(info['tid'], 0, info['uid'], code, payload)


# --------------------------------------------------------------------------- the lemma shared by all front-ends
ALL_CLAUSES = ('no-exception', 'routing', 'absent', 'failure', 'response', 'framer')


def serve_unicast(fe, prop, clauses=ALL_CLAUSES, finding=None):
    """a request for unit u arrives (broadcast not applicable: flag off, or u != 0): S-SERVE prescribes
    hosted u     -> executed exactly once, against context[u] only; one response frame (if should_respond) echoing
                    tid/uid, carrying fc (normal) or fc|0x80 (exception), exception 04 when the datastore raises
    not hosted   -> nothing executed; silence if ignore_missing_slaves else one exception frame fc|0x80 code 0x0B"""
    has_bc = FRONTENDS[fe][2]

    def lemma(E):
        W = World()
        mode = E.choice('context_mode', ['multi', 'single'])
        if mode == 'multi':
            ctx, slaves = multi_context(E)
        else:
            the_one = E.int('only_context', 1, None)
            ctx = E.obj(CTX, single=True, _slaves={0: the_one})
        broadcast = E.bool('broadcast_enable') if has_bc else False
        ignore = E.bool('ignore_missing_slaves')
        req, info = make_request(E, W, ['normal', 'exception', 'raises'])
        E.assume(L.Not(L.And(broadcast, info['uid'] == 0)))          # unicast case (broadcast: serve_broadcast)
        h, meth, args, addr = make_handler(E, W, fe, ctx, broadcast, ignore)
        # execute is the framer's callback: requests pipelined behind this one in the same read are still in the framer's buffer while it runs,
        # so whatever it does with this request (answer, exception, silence) it must leave the framer's receive state as it is
        fr = E.get(h, 'framer')
        E.set(fr, '_buffer', E.bytes('requests_still_buffered', 0, 64))
        framer_before = E.clone(fr)
        out = E.attempt(lambda: E.method(h, meth, req, *args))
        if 'no-exception' in clauses:
            E.prove('%s:no-exception-escapes-execute' % prop, out.ok)
        if not out.ok:
            return
        if 'framer' in clauses:
            E.prove('%s:execute-leaves-the-framers-receive-state-alone' % prop, E.same_state(fr, framer_before, skip=('decoder', 'client')))
        prove0 = E.prove

        def prove(label, cond, **kw):
            kind = {'not-executed': 'routing', 'executed-exactly': 'routing', 'absent-unit': 'absent', 'datastore-failure': 'failure',
                    'one-response': 'response', 'silent-only': 'response', 'datagram-goes': 'response'}
            for k, v in kind.items():
                if (':' + k) in label and v not in clauses:
                    return
            prove0(label, cond, **kw)
        E = _Proxy(E, prove)
        hosted = True if mode == 'single' else L.map_has(slaves, info['uid'])
        want_ctx = the_one if mode == 'single' else L.map_get(slaves, info['uid'])
        if len(W.executed) == 0:
            E.prove('%s:not-executed=>unit-not-hosted' % prop, L.Not(hosted))
            if len(W.sent) == 0:
                E.prove('%s:absent-unit-silence-only-if-configured' % prop, L.truth(ignore))
            else:
                E.prove('%s:absent-unit-one-gateway-exception' % prop, L.And(len(W.sent) == 1, L.Not(L.truth(ignore)),
                        L.eq(W.sent[0][0], expected_frame(req, info, info['fc'] + 128, [0x0B]))))
            return
        E.prove('%s:executed-exactly-once-against-the-addressed-unit' % prop, L.And(len(W.executed) == 1, hosted, W.executed[0] == want_ctx))
        oc = info['state'].get('outcome')
        if oc == 'raises':
            E.prove('%s:datastore-failure->exception-04' % prop, len(W.sent) == 1 and L.eq(W.sent[0][0], expected_frame(req, info, info['fc'] + 128, [0x04])))
        elif oc == 'exception':
            E.prove('%s:one-response-echoing-ids' % prop, len(W.sent) == 1 and L.eq(W.sent[0][0], expected_frame(req, info, info['fc'] + 128, info['payload'])))
        else:
            fk = {'finding': finding, 'region': L.Not(info['should'])} if (fe == 'twisted.udp' and finding) else {}
            if len(W.sent) == 0:
                E.prove('%s:silent-only-for-no-response-messages' % prop, L.Not(info['should']))
            else:
                E.prove('%s:one-response-echoing-ids' % prop, L.And(len(W.sent) == 1, L.truth(info['should']),
                        L.eq(W.sent[0][0], expected_frame(req, info, info['fc'], info['payload']))), **fk)
        if len(W.sent) == 1 and fe.endswith('udp'):
            E.prove('%s:datagram-goes-to-the-sender' % prop, W.sent[0][1] == addr)
    return lemma


class _Proxy:
    """E with a filtered prove()"""
    def __init__(self, E, prove):
        self.__dict__['_E'], self.__dict__['prove'] = E, prove

    def __getattr__(self, name):
        return getattr(self.__dict__['_E'], name)


def serve_broadcast(fe, prop, nunits):
    """broadcast enabled and unit 0: the request is executed exactly once against every hosted unit, nothing is sent.
    (bounded in the number of hosted units - the loop over slaves() is unrolled - unit ids symbolic)"""
    def lemma(E):
        W = World()
        ids = [E.int('unit%d' % k, 0, 256) for k in range(nunits)]
        E.assume(L.And(*[ids[a] != ids[b] for a in range(nunits) for b in range(a + 1, nunits)]) if nunits > 1 else True)
        handles = [E.int('ctx%d' % k, 1, None) for k in range(nunits)]
        E.assume(L.And(*[handles[a] != handles[b] for a in range(nunits) for b in range(a + 1, nunits)]) if nunits > 1 else True)
        ctx = E.obj(CTX, single=False, _slaves=dict(zip(ids, handles)))
        req, info = make_request(E, W, ['normal', 'exception', 'raises'])
        E.assume(info['uid'] == 0)
        h, meth, args, addr = make_handler(E, W, fe, ctx, True, E.bool('ignore_missing_slaves'))
        out = E.attempt(lambda: E.method(h, meth, req, *args))
        E.prove('%s:no-exception-escapes-execute' % prop, out.ok)
        # silent whatever the datastores do - also when one of them fails while the broadcast is being applied
        E.prove('%s:broadcast-produces-no-response' % prop, len(W.sent) == 0)
        if info['state'].get('outcome') != 'raises':
            # (a datastore failure aborts the loop over the units: the units after it are not written - C05's quantifier, reported as an observation)
            E.prove('%s:broadcast-applied-exactly-once-to-every-hosted-unit' % prop, L.And(len(W.executed) == nunits,
                    *[L.Or(*[W.executed[j] == handles[k] for j in range(len(W.executed))]) for k in range(nunits)]) if len(W.executed) == nunits else False)
    return lemma
