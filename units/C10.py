"""C10 - requests act only on the addressed unit; broadcast acts on all.

routing    every front-end's execute: a request is executed exactly once and only against context[unit_id]; for a unit
           that is not hosted nothing is executed and the answer is silence or gateway exception 0x0B; single mode sends
           every unit id to the one context (serve_unicast, S-SERVE; hosted sets arbitrary - symbolic map)
broadcast  enabled + unit 0: executed exactly once against every hosted unit, nothing sent (serve_broadcast; hosted sets
           of 0..3 units with symbolic ids: the loop over slaves() is unrolled - bounded in the number of hosted units)
filter     ModbusFramer._validate_unit_id against its specification; each serving loop hands the framer a unit list
           that contains every hosted unit, and unit 0 when broadcast is enabled (so the filter never hides a request
           the server must act on)
Non-interference between units: execute() receives only the addressed unit's context object and the request's execute
touches nothing but the context it is given (C04 frame conditions); contexts of distinct units are distinct objects
(configuration assumption A6)."""
from pyvc.unit import Unit, LoopAnn
from pyvc import lang as L
from . import serve as S

TRUSTED = ['S-SERVE (units/serve.py)']
ASSUMPTIONS = ['contexts registered for distinct unit ids are distinct objects (A6)', 'no datastore raises during a broadcast (raising datastores are C05)']
PROP = 'C10'
FR = 'pymodbus.framer.ModbusFramer'


def validate_unit_id(E):
    units = E.ints_n('units', E.choice('nunits', [0, 1, 2, 3]), 0, 256)
    single = E.bool('single')
    uid = E.int('uid', 0, 256)
    fr = E.obj(FR, _header={'uid': uid})
    r = E.method(fr, '_validate_unit_id', units, single)
    member = L.Or(*[u == uid for u in units]) if units else False
    wild = L.Or(*[L.Or(u == 0, u == 255) for u in units]) if units else False
    E.prove('filter:accepts-every-listed-unit', L.Implies(member, L.truth(r)))
    E.prove('filter:single-mode-accepts-all', L.Implies(single, L.truth(r)))
    E.prove('filter:rejects-only-unlisted-units', L.Implies(L.Not(L.truth(r)), L.And(L.Not(member), L.Not(single), L.Not(wild))))


def unit_list(fe):
    """one iteration of the serving loop: the (units, single) handed to the framer"""
    cls, meth, has_bc = S.FRONTENDS[fe]

    def lemma(E):
        n = E.choice('hosted', [0, 1, 2, 3])
        ids = [E.int('unit%d' % k, 0, 256) for k in range(n)]      # any id the constructor accepts, 248..255 included
        ctx = E.obj(S.CTX, single=E.bool('single'), _slaves=dict((ids[k], 100 + k) for k in range(n)))
        broadcast = E.bool('broadcast_enable')
        seen = []

        def pip(*args, **kw):
            # the clauses are checked here, at the call of the framer: the iteration path of a cut loop ends with the loop body
            E.check_args('pymodbus.framer.socket_framer.ModbusSocketFramer.processIncomingPacket', args, kw)
            units = kw['unit'] if 'unit' in kw else args[2]
            single = kw.get('single', False)
            seen.append(1)
            if E.mode == 'concrete':
                h.running = False
            ul = E.tolist(units)
            has = lambda x: L.Or(*[u == x for u in ul]) if len(ul) else False
            E.prove('units:every-hosted-unit-is-accepted', L.And(*[has(i) for i in ids]) if ids else True)
            E.prove('units:single-flag-is-the-contexts', L.Iff(L.truth(single), L.truth(ctx.single)))
            fk = {}          # (C10-F1, sync UDP handler never admitting unit 0, was repaired: /repo fcf8570)
            E.prove('units:unit-0-is-accepted-when-broadcast-is-enabled', L.Implies(broadcast, L.Or(has(0), L.truth(single))), **fk)
            # ... and nothing else is: an id nobody hosts (0 and 255 in the list make the framer accept EVERY unit) is not let through
            hosted = lambda u: L.Or(*[u == i for i in ids]) if ids else False
            E.prove('units:nothing-but-the-hosted-units-is-accepted(+0-under-broadcast)', L.And(*[L.Or(hosted(u), L.And(u == 0, L.truth(broadcast))) for u in ul]) if ul else True)
        fr = E.stub('framer', {'processIncomingPacket': pip, 'resetFrame': lambda: None})
        chunk = E.bytes('chunk', 1, 64)
        if fe.startswith('twisted'):
            E.assume(L.Not(broadcast))               # Twisted has no broadcast option
            ctl = E.new('pymodbus.device.ModbusControlBlock')
            if fe == 'twisted.udp':
                h = E.obj(S.TW + 'ModbusUdpProtocol', store=ctx, control=ctl, framer=fr, ignore_missing_slaves=False)
                E.attempt(lambda: E.method(h, 'datagramReceived', chunk, ('peer', 502)))
            else:
                factory = E.obj(S.TW + 'ModbusServerFactory', store=ctx, control=ctl, ignore_missing_slaves=False)
                h = E.obj(S.TW + 'ModbusTcpProtocol', factory=factory, framer=fr)
                E.attempt(lambda: E.method(h, 'dataReceived', chunk))
        elif fe.startswith('sync'):
            server = E.obj(S.SY + 'ModbusTcpServer', context=ctx, broadcast_enable=broadcast, ignore_missing_slaves=False)
            sock = E.stub('socket', {'recv': lambda k: chunk})
            req = (chunk, sock) if fe == 'sync.udp' else sock
            h = E.obj(cls, server=server, framer=fr, request=req, socket=sock, client_address=('peer', 502), running=True)
            E.attempt(lambda: E.method(h, 'handle'))
        else:
            server = E.obj(S.AIO + 'ModbusTcpServer', context=ctx, broadcast_enable=broadcast, ignore_missing_slaves=False)
            item = (chunk, ('peer', 502)) if fe == 'asyncio.udp' else chunk
            h = E.obj(cls, server=server, framer=fr, receive_queue=E.stub('queue', {'get': lambda: item}, awaitable=('get',)), transport=E.stub('transport', {'close': lambda: None}),
                      client_address=('peer', 502), running=True, handler_task=None)
            if E.mode == 'concrete':
                import asyncio
                E.attempt(lambda: E._run(lambda: asyncio.new_event_loop().run_until_complete(h.handle())))
            else:
                E.attempt(lambda: E.method(h, 'handle'))
    return lemma


SERVER_CTORS = [(S.SY + 'ModbusTcpServer.__init__', 'context', 'context'), (S.SY + 'ModbusUdpServer.__init__', 'context', 'context'),
                (S.SY + 'ModbusSerialServer.__init__', 'context', 'context'), (S.AIO + 'ModbusTcpServer.__init__', 'context', 'context'),
                (S.AIO + 'ModbusUdpServer.__init__', 'context', 'context'),
                (S.TW + 'ModbusServerFactory.__init__', 'store', 'store'), (S.TW + 'ModbusUdpProtocol.__init__', 'store', 'store')]


def context_kept(E):
    """the server serves the context object it was given - whatever that context hosts at that moment, nothing included (units may be
    added to it later): every server constructor stores its context argument, and where it does so with `context or <default>` the
    argument's class is always truthy.  Decided on the AST of the constructors and of ModbusServerContext (ownership back end)"""
    from pyvc import ownership as O
    for q, param, attr in SERVER_CTORS:
        ok, detail = O.keeps_argument(q, param, attr, S.CTX)
        if ok is None:
            if E.mode != 'symbolic':
                continue
            from pyvc.values import Unsupported
            raise Unsupported('%s: %s' % (q, detail))
        E.prove('context:the-server-serves-the-context-object-it-was-given[%s]' % q.split('.', 2)[-1].replace('.__init__', ''), ok, backend='ownership', detail=detail)


def get_units():
    from . import store_contracts as STC
    from . import C04 as _C04
    us = [STC.default_blocks_unit(PROP), Unit('%s/layout.blocks-own-their-storage' % PROP, _C04.storage_lemma, [PROP], functions=[STC.SEQ + '.__init__', STC.SEQ + '.setValues']), Unit('%s/context.kept' % PROP, context_kept, [PROP], functions=[q for q, _, _ in SERVER_CTORS]), Unit('%s/validate_unit_id' % PROP, validate_unit_id, [PROP], functions=[FR + '._validate_unit_id'])]
    for fe in S.FRONTENDS:
        us.append(Unit('%s/routing.%s' % (PROP, fe), S.serve_unicast(fe, PROP, clauses=('routing', 'absent')), [PROP], functions=S.FUNCS[fe]))
        if S.FRONTENDS[fe][2]:
            for n in (0, 1, 2, 3):
                u = Unit('%s/broadcast.%s.%dunits' % (PROP, fe, n), S.serve_broadcast(fe, PROP, n), [PROP], functions=S.FUNCS[fe])
                u.bounded_note = 'bounded in the number of hosted units (<= 3), unit ids symbolic'
                us.append(u)
            hq = (S.FRONTENDS[fe][0] if fe.startswith('sync') else S.AIO + 'ModbusBaseRequestHandler') + '.handle'
            ann = LoopAnn('serve', lambda v, j: True)
            if fe == 'sync.udp':
                ann.keep = ('socket', 'request')
            us.append(Unit('%s/unit_list.%s' % (PROP, fe), unit_list(fe), [PROP], functions=[hq], loops={(hq, 0): ann}))
    us.append(Unit('%s/unit_list.twisted.tcp' % PROP, unit_list('twisted.tcp'), [PROP], functions=[S.TW + 'ModbusTcpProtocol.dataReceived']))
    us.append(Unit('%s/unit_list.twisted.udp' % PROP, unit_list('twisted.udp'), [PROP], functions=[S.TW + 'ModbusUdpProtocol.datagramReceived']))
    return us
