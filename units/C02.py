"""C02 - encode/decode are mutual inverses and encoding is pure.

Per class K of the S-PDU table (units/codecs.py), for every valid view v:
  rt     Decoder.decode(bytes([fc]) + K(v).encode()) is an instance of K whose view equals v
         (requests through ServerDecoder, responses and exception responses through ClientDecoder;
         bit lists compared up to zero padding) - uses the *real* encode and the *real* decode
  pure   encode() leaves every attribute of the instance unchanged (so encoding twice, or encoding a freshly
         decoded object, yields identical bytes: encode is then a function of an unchanged object)
  acc    decode() into an instance that holds the result of an earlier decode yields the same view as
         decoding into a fresh instance (no state accumulates)"""
from pyvc.unit import Unit
from pyvc import lang as L
from . import codecs as C
from . import codec_contracts as K
from .C01 import instance, fc_byte, CONTRACTS, SDEC, CDEC

TRUSTED = []
ASSUMPTIONS = ['file-record (FC 20/21) and device-identification response codecs: bounded stand-in']


def rt_lemma(c):
    def lemma(E):
        v = c.view(E)
        obj = instance(E, c, v)
        enc = E.attempt(lambda: E.method(obj, 'encode'))
        if not enc.ok:
            E.prove('rt:encode-no-exception', False)
            return
        pdu = E.as_bytes(L.concat([fc_byte(E, c, v)], enc.value))
        dec = E.new(SDEC if c.direction == 'req' else CDEC)
        out = E.attempt(lambda: E.method(dec, 'decode', pdu))
        fk = c.fk('rt:exception', v)
        if not out.ok:
            E.prove('rt:decode-no-exception', False, raised=out.exc.cls, **fk)
            return
        m = out.value
        if m is None:
            E.prove('rt:decode-yields-a-message', False, **fk)
            return
        E.prove('rt:same-type', E.classname(m) == c.name)
        if E.classname(m) == c.name:
            c.check_same(E, 'rt:field', c.read(E, m), v, 'rt')
    return lemma


def pure_lemma(c):
    def lemma(E):
        v = c.view(E)
        obj = instance(E, c, v)
        before = E.clone(obj)
        out = E.attempt(lambda: E.method(obj, 'encode'))
        if out.ok:
            E.prove('pure:encode-changes-no-attribute', E.same_state(obj, before), **c.fk('pure', v))
    return lemma


def acc_lemma(c):
    def lemma(E):
        v = c.view(E)
        data = E.as_bytes(c.wire(E, v))
        f = dict(C.BASE)
        f.update(c.extra_fields)
        f.update(c.prior(E))
        obj = E.obj(c.cls, **f)
        out = E.attempt(lambda: E.method(obj, 'decode', data))
        fresh = E.new(c.cls) if c.fc is not None else E.new(c.cls, v['original_code'])
        ref = E.attempt(lambda: E.method(fresh, 'decode', data))
        if not (out.ok and ref.ok):
            E.prove('acc:same-outcome', (not out.ok) and (not ref.ok))
            return
        c.check_same(E, 'acc:field', c.read(E, obj), c.read(E, fresh), 'acc')
    return lemma


def get_units():
    from .C01 import codec_units
    us = codec_units('C02', rt_lemma, 'rt') + codec_units('C02', pure_lemma, 'pure') + codec_units('C02', acc_lemma, 'acc')
    for u in us:
        u.functions = [u.functions[0].rsplit('.', 1)[0] + '.encode', u.functions[0].rsplit('.', 1)[0] + '.decode']
    for k in CONTRACTS:
        us.append(k.unit())
    from . import lemmas as LM
    us += LM.lemma_units()
    return us
