"""Shared scaffolding for the synchronous-client lemmas (C08, C13).

The transaction manager's execute / _transact / _recv are the real code.  Around them:
  transport   client.connect / close / send / recv are python functions of the unit (havoc'd: every read returns arbitrary bytes
              within the requested size, or nothing, or raises)
  framer      symbolic mode: the real framer object (isinstance tests in the manager see its class) whose processIncomingPacket is
              replaced by the contract FramerDelivers - what the filter lemmas (C08/filter.<kind>, real framer code) establish about
              every message a framer hands to its callback; buildPacket / RTU sendPacket / recvPacket are abstracted (transport side)
              concrete mode (replay, twin): the real framer with a recording stub decoder, nothing abstracted
"""
from pyvc import lang as L
from pyvc.unit import FunctionContract
from . import framers as F

TM = 'pymodbus.transaction.DictTransactionManager'
TMQ = 'pymodbus.transaction.ModbusTransactionManager'
BASE = 'pymodbus.client.sync.BaseModbusClient'
IDLE, COMPLETE = 0, 6

CUR = {}        # per-path recorder handed to the contracts (set by make_client)


class Wire:
    def __init__(self):
        self.sent = []          # frames handed to the transport
        self.reads = []         # (requested size, bytes returned)
        self.connects = 0
        self.closes = 0
        self.handed = []        # (data handed to processIncomingPacket, framer buffer length at that moment)
        self.events = []        # 'connect' | 'send' | 'recv' | 'close' in order


class Custom(FunctionContract):
    """abstraction of a callee by a python function of the unit (symbolic mode only; listed under the unit's assumptions)"""
    def __init__(self, qual, fn, note=''):
        self.qual, self.fn, self.note = qual, fn, note

    def apply(self, I, args, kw):
        from pyvc.sym import SymE
        E = SymE(I.st, I.cfg)
        E.I = I
        return self.fn(E, I, *args, **kw)

    def unit(self):
        return None


def _fresh_bytes(E, name, lo=0, hi=300):
    from pyvc import values as V
    s = V.Seq.fresh('bytes', name, lo=0, hi=256, inp=False)
    E.assume(L.And(L.length(s) >= lo, L.length(s) <= hi))
    return s


def transport_side(kind):
    """buildPacket -> some non-empty frame (C03 decides which); RTU sendPacket / recvPacket -> the client's send / recv (their waiting
    loops and time stamps are not modelled)"""
    q = F.QUAL[kind]
    cs = [Custom(q + '.buildPacket', lambda E, I, fr, msg: _fresh_bytes(E, 'frame', 4, 300), 'request frame abstracted')]
    if kind == 'rtu':
        def send(E, I, fr, message):
            client = E.get(fr, 'client')
            E.set(client, 'state', E.fresh_int('state_after_wait'))
            return I.call_value(E.get(client, 'send'), [message], {})

        def recv(E, I, fr, size):
            client = E.get(fr, 'client')
            return I.call_value(E.get(client, 'recv'), [size], {})
        cs += [Custom(q + '.sendPacket', send), Custom(q + '.recvPacket', recv)]
    return cs


class TransactAny(FunctionContract):
    """_transact(packet, response_length, full, broadcast) as the transact lemma (C08/transact.<kind>, real code) establishes it: returns a pair
    (bytes received - possibly none, last exception or None); touches neither the framer's buffer nor the reply slots nor the request, except
    that the RTU framer's buildPacket overwrites request.transaction_id with the unit id; the client state is whatever the exchange left;
    exceptions other than the transport errors it catches propagate"""
    qual = TMQ + '._transact'

    def __init__(self, kind):
        self.kind = kind

    def apply(self, I, args, kw):
        from pyvc.sym import SymE
        E = SymE(I.st, I.cfg)
        E.I = I
        tm, packet = args[0], args[1]
        client = E.get(tm, 'client')
        E.set(client, 'state', E.fresh_int('state_after_transact'))
        if self.kind == 'rtu':
            E.set(packet, 'transaction_id', E.get(packet, 'unit_id'))      # ModbusRtuFramer.buildPacket: the unit id stands in for the transaction id
        k = I.st.branch(3, 'transact-outcome')
        if k == 2:
            raise E.Raised('ValueError')          # e.g. int() of non-hex ASCII characters in _recv: not caught by _transact
        data = _fresh_bytes(E, 'received', 0, 600)
        CUR['wire'].reads.append((None, data))
        if k == 1:
            E.assume(L.length(data) == 0)
            return (data, E.opaque('transport-error'))
        return (data, None)

    def unit(self):
        return None


class FramerDelivers(FunctionContract):
    """processIncomingPacket(data, callback, unit, single=False) of a client-side framer, as the filter lemmas establish it for the real code:
    the callback is invoked zero or more times, each time with a message m produced by the decoder from a frame in buffer + data such that
      m.unit_id is the unit id on the wire and passes the unit filter: single, or 0 / 0xFF among the expected units, or the wire id among them
      (TCP) m.transaction_id / protocol_id are the ones on the wire
    and nothing is delivered when buffer and data are both empty; the call may raise after any delivery.  m's transaction id, function code and
    (within the filter) unit id are otherwise arbitrary - the framer does not know the request.
    At the call site the number of deliveries is split 0 / 1 / 2 / 1-then-raise: the client's callback stores under one fixed key, so any
    longer sequence leaves the same state as its last two elements."""
    def __init__(self, kind):
        self.kind = kind
        self.qual = F.QUAL[kind] + '.processIncomingPacket'

    def apply(self, I, args, kw):
        from pyvc.sym import SymE
        E = SymE(I.st, I.cfg)
        E.I = I
        fr, data, callback, unit = args[:4]
        single = kw.get('single', False)
        units = list(unit) if isinstance(unit, (list, tuple)) else [unit]
        rec, wire = CUR['rec'], CUR['wire']
        buflen = L.length(E.get(fr, '_buffer'))
        wire.handed.append((data, buflen))
        k = I.st.branch(4, 'framer-deliveries')
        nothing = L.And(L.length(data) == 0, buflen == 0)
        if k > 0:
            E.assume(L.Not(nothing))
        for j in range({0: 0, 1: 1, 2: 2, 3: 1}[k]):
            n = len(rec.decoded)
            uid = E.fresh_int('wire_uid%d' % n)
            tid = E.fresh_int('wire_tid%d' % n)
            fc = E.fresh_int('wire_fc%d' % n)
            E.assume(L.And(0 <= uid, uid < 256, 0 <= tid, tid < 65536, 0 <= fc, fc < 256))
            E.assume(L.Or(L.truth(single), *([L.Or(u == 0, u == 255, u == uid) for u in units])))
            msg = E.obj('pymodbus.pdu.ModbusResponse', transaction_id=tid if self.kind == 'socket' else 0, protocol_id=0, unit_id=uid, skip_encode=False, check=0, function_code=fc)
            rec.decoded.append((None, None, {'uid': uid, 'tid': tid}, msg))
            I.call_value(callback, [msg], {})
        E.set(fr, '_buffer', _fresh_bytes(E, 'buffer_after', 0, 600))
        if k == 3:
            CUR['raised_after_delivery'] = True
            raise E.Raised(E.choice('framer_raises', ['ModbusIOException'] if CUR.get('only_io') else ['ModbusIOException', 'struct.error']))      # the one the manager catches / one it does not
        return None

    def unit(self):
        return None


def make_client(E, kind, wire, rec, retries, retry_on_empty, retry_on_invalid, transport, connect_ok=True, udp=False, decoder_outcomes=('message',), tcp=False):
    """client + DictTransactionManager + real framer of `kind`; transport(n_read, size) -> bytes | raises"""
    CUR['rec'], CUR['wire'] = rec, wire
    CUR['raised_after_delivery'] = False
    frm = [None]
    dec = F.decoder(E, rec, frm, outcomes=decoder_outcomes, size_of=lambda fc, buf: E.int('oracle_size_%d' % len(rec.decoded), 4, 300), empty='none', per_call=True)

    def connect():
        wire.connects += 1
        wire.events.append('connect')
        return connect_ok

    def close():
        wire.closes += 1
        wire.events.append('close')

    def send(msg):
        wire.sent.append(msg)
        wire.events.append('send')
        E.set(client, 'state', 1)        # BaseModbusClient.send: state = SENDING
        return L.length(msg)

    def recv(size):
        data = transport(len(wire.reads), size)
        wire.reads.append((size, data))
        wire.events.append('recv')
        return data
    # the transaction manager looks at str(client): 'modbusudpclient' selects the whole-datagram read; the TCP client class is the
    # framer-over-TCP case (any framing carried by a ModbusTcpClient)
    cls = 'pymodbus.client.sync.ModbusUdpClient' if udp else ('pymodbus.client.sync.ModbusTcpClient' if tcp else BASE)
    extra = dict(host='peer', port=502) if (udp or tcp) else {}
    client = E.obj(cls, framer=None, transaction=None, broadcast_enable=False, state=E.choice('client_state', [0, 6]), last_frame_end=None, silent_interval=0,
                   connect=E.callback(connect, 'connect'), close=E.callback(close, 'close'), send=E.callback(send, 'send'), recv=E.callback(recv, 'recv'),
                   timeout=3, **extra)
    f = E.new(F.QUAL[kind], dec, client)
    frm[0] = f
    E.set(client, 'framer', f)
    tm = E.obj(TM, transactions={}, tid=0, client=client, backoff=0, retry_on_empty=retry_on_empty, retry_on_invalid=retry_on_invalid,
               retries=retries, _transaction_lock=(E.opaque('lock', kind='RLock') if E.mode == 'symbolic' else __import__('threading').RLock()), _no_response_devices=[], base_adu_size=None)
    E.method(tm, '_set_adu_size')
    E.set(client, 'transaction', tm)
    return client, tm, f


def request(E, fc=3):
    """a read-holding-registers request (predicts its reply size); ids symbolic"""
    uid = E.int('unit_id', 0, 256)
    n = E.int('count', 1, 126)
    payload = E.bytes_n('req_payload', 4)
    return E.obj('pymodbus.register_read_message.ReadHoldingRegistersRequest', transaction_id=0, protocol_id=0, unit_id=uid, skip_encode=False, check=0,
                 address=0, count=n, encode=E.callback(lambda: payload, 'encode')), uid, n
