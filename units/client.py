"""Shared scaffolding for the synchronous-client lemmas (C08, C13): a transaction manager over a real framer, a stub
decoder and a havoc'd transport (every read returns arbitrary bytes within the requested size, or nothing, or raises)."""
from pyvc import lang as L
from . import framers as F

TM = 'pymodbus.transaction.DictTransactionManager'
BASE = 'pymodbus.client.sync.BaseModbusClient'
IDLE, COMPLETE = 0, 6


class Wire:
    def __init__(self):
        self.sent = []          # frames handed to the transport
        self.reads = []         # (requested size, bytes returned)
        self.connects = 0
        self.closes = 0


def make_client(E, kind, wire, rec, retries, retry_on_empty, retry_on_invalid, transport, connect_ok=True):
    """client + DictTransactionManager + real framer of `kind`; transport(n_read, size) -> bytes | raises"""
    frm = [None]
    dec = F.decoder(E, rec, frm, outcomes=('message',), size_of=lambda fc, buf: E.int('oracle_size_%d' % len(rec.decoded), 4, 300))

    def connect():
        wire.connects += 1
        return connect_ok

    def close():
        wire.closes += 1

    def send(msg):
        wire.sent.append(msg)
        E.set(client, 'state', 1)        # BaseModbusClient.send: state = SENDING
        return L.length(msg)

    def recv(size):
        data = transport(len(wire.reads), size)
        wire.reads.append((size, data))
        return data
    client = E.obj(BASE, framer=None, transaction=None, broadcast_enable=False, state=IDLE, last_frame_end=None, silent_interval=0,
                   connect=E.callback(connect, 'connect'), close=E.callback(close, 'close'), send=E.callback(send, 'send'), recv=E.callback(recv, 'recv'),
                   timeout=3)
    f = E.new(F.QUAL[kind], dec, client)
    frm[0] = f
    E.set(client, 'framer', f)
    tm = E.obj(TM, transactions={}, tid=E.int('tid_counter', 0, 65536), client=client, backoff=0, retry_on_empty=retry_on_empty, retry_on_invalid=retry_on_invalid,
               retries=retries, _transaction_lock=E.opaque('lock', kind='RLock'), _no_response_devices=[], base_adu_size=None)
    E.method(tm, '_set_adu_size')
    E.set(client, 'transaction', tm)
    return client, tm, f


def request(E, fc=3):
    """a read-holding-registers style request (predicts its reply size); ids symbolic"""
    uid = E.int('unit_id', 0, 256)
    n = E.int('count', 1, 126)
    payload = E.bytes_n('req_payload', 4)
    return E.obj('pymodbus.register_read_message.ReadHoldingRegistersRequest', transaction_id=0, protocol_id=0, unit_id=uid, skip_encode=False, check=0,
                 address=0, count=n, encode=E.callback(lambda: payload, 'encode')), uid, n
