"""C07 - corrupted frames are never delivered as messages.

Gate obligation per framer, from an ARBITRARY framer state (any buffer, any header, any chunk; the receive loop is cut
at the trivial invariant, so every iteration of every call history is covered): whenever the callback is invoked with a
message, that message is the one the decoder produced from exactly the PDU bytes of a frame in the buffer whose
integrity check holds -
  RTU     crc16(unit + PDU) (bit-level S-CRC) equals the two bytes that follow the PDU, low byte first
  binary  '{' ... '}' with the S-CRC of unit + PDU before the closing brace
  ASCII   ':' + hex text + CR LF, every character a hex digit, S-LRC of the decoded bytes equal to the last byte
  TCP     MBAP length >= 2 and exactly length-1 PDU bytes present after the 7-byte header
computeCRC / computeLRC are tied to the bit-level specifications by their own contracts (C03 units).  Truncations,
extensions and corruptions therefore need no enumeration: any frame whose check fails cannot satisfy the gate."""
from pyvc.unit import Unit
from pyvc import lang as L
from spec import checks as CK
from spec import pdu as P
from . import framers as F
from . import codec_contracts as K

TRUSTED = ['S-CRC / S-LRC (spec/checks.py)']
ASSUMPTIONS = ['error-detection power of CRC-16/LRC (which corruptions change the checksum) is a property of the specified checksum, not of this code: not proved',
               'a corruption that changes the frame extent on RTU is caught with probability 1 - 2^-16 (inherent in the protocol)',
               'RTU frame size oracle abstracted to an arbitrary size (any value the decoder table may return)']
PROP = 'C07'
CS = (K.ComputeCRC(), K.ComputeLRC())


def gate(kind):
    def lemma(E):
        rec = F.Rec()
        osz = E.int('oracle_size', 4, 70000) if kind == 'rtu' else None      # the length oracle is a function of the buffer: one value per call; >= 4 for every class (C03/oracle.min)
        size = lambda fc, buf: osz
        f = F.arbitrary_framer(E, kind, rec, outcomes=('message', 'none', 'raises'), size_of=size)
        # the chunk is appended to the buffer before anything else happens and the buffer is arbitrary: WLOG the chunk is
        # empty (any (buffer, chunk) behaves as (buffer + chunk, b''))
        chunk = b''
        units = [E.int('unit0', 0, 256)]
        single = E.bool('single')

        def on_deliver(msg, pdu, buf, hdr):
            if pdu is None:
                E.prove('gate:delivered-message-came-from-the-decoder', False)
                return
            n = L.length(buf)
            if kind == 'socket':
                ln = P.u16_at(buf, 4)
                ok = L.And(n >= 8, ln >= 2, n >= 7 + ln - 1, L.eq(pdu, L.slice_(buf, 7, 7 + ln - 1)))
                fk = {'finding': 'C07-F1', 'region': L.Or(n <= 7, ln < 2)}
            elif kind == 'rtu':
                size_ = hdr.get('len')
                ok = L.And(size_ >= 4, size_ <= n, L.eq(pdu, L.slice_(buf, 1, size_ - 2)),
                           L.eq(L.slice_(buf, size_ - 2, size_), CK.crc_bytes(E, L.slice_(buf, 0, size_ - 2)))) if size_ is not None else False
                fk = {}
            elif kind == 'binary':
                end = hdr['len']
                ok = L.And(L.at(buf, 0) == 0x7B, end >= 4, end < n, L.at(buf, end) == 0x7D, L.eq(pdu, L.slice_(buf, 2, end - 2)),
                           L.eq(L.slice_(buf, end - 2, end), CK.crc_bytes(E, L.slice_(buf, 1, end - 2))))
                fk = {}
            else:
                end = hdr['len']
                text = L.slice_(buf, 1, end - 2)          # hex text of unit + PDU
                E.prove('gate:ascii:colon...CRLF-envelope', L.And(L.at(buf, 0) == 0x3A, end >= 5, end + 1 < n, L.at(buf, end) == 0x0D, L.at(buf, end + 1) == 0x0A))
                E.prove('gate:ascii:even-number-of-hex-characters', (end - 3) % 2 == 0)
                E.prove_forall('gate:ascii:every-character-of-unit+pdu-is-a-hex-digit', 0, end - 3, lambda k: CK.hexval(L.at(text, k)) >= 0)
                lrc_hex = L.And(CK.hexval(L.at(buf, end - 2)) >= 0, CK.hexval(L.at(buf, end - 1)) >= 0)
                E.prove('gate:ascii:both-lrc-characters-are-hex-digits', lrc_hex, finding='C07-F2', region=L.Not(lrc_hex))
                E.prove('gate:ascii:delivered-pdu-is-the-decoded-text:length', L.length(pdu) == (end - 5) // 2)
                E.prove_forall('gate:ascii:delivered-pdu-is-the-decoded-text', 0, (end - 5) // 2,
                               lambda k: L.at(pdu, k) == CK.hexval(L.at(buf, 3 + 2 * k)) * 16 + CK.hexval(L.at(buf, 4 + 2 * k)))
                if E.mode != 'symbolic' and not (L.truth(CK.all_hex(text)) and (end - 3) % 2 == 0):
                    return                                # already reported above; the text denotes no bytes whose LRC could be taken
                body = CK.unhex(text)
                E.prove('gate:ascii:lrc-of-the-decoded-bytes-matches', CK.lrc(E, body) == CK.hexval(L.at(buf, end - 2)) * 16 + CK.hexval(L.at(buf, end - 1)),
                        finding='C07-F2', region=L.Not(lrc_hex))
                return
            E.prove('gate:integrity-holds-on-exactly-the-delivered-extent', ok, **fk)
        cb = E.callback(F.callback(E, rec, on_deliver), 'callback')
        out = E.attempt(lambda: E.method(f, 'processIncomingPacket', chunk, cb, units, single=single), allow_cut=True)
        E.prove('gate:reached', True)
    return lemma


def get_units():
    us = []
    for kind in ('socket', 'rtu', 'binary', 'ascii'):
        # the same gate with every loop of processIncomingPacket CUT at the trivial invariant: each iteration starts from a havoc'd
        # buffer/header (sound for any loop structure; counter-models live in havoc'd state and cannot be replayed - a failure is
        # reported against the baseline as no-failing-input-found)
        us.append(Unit('%s/gate.cut.%s' % (PROP, kind), gate(kind), [PROP], contracts=CS, loops=F.loop_anns(kind), twin=F.gate_twin(kind),
                       functions=[F.QUAL[kind] + '.processIncomingPacket']))
        # bounded companion: the first iteration only, from an arbitrary (buffer, header).  Its counter-models are over the inputs and
        # replay on the real code, which those of the cut unit cannot; it proves nothing about later iterations (a loop entered behind
        # a guard does not re-establish the guard), so it is labelled bounded and never counted as proved
        us.append(Unit('%s/gate.%s' % (PROP, kind), gate(kind), [PROP], contracts=CS, unroll={(F.QUAL[kind] + '.processIncomingPacket', 0): 1}, twin=F.gate_twin(kind),
                       functions=[F.QUAL[kind] + '.' + m for m in ('processIncomingPacket', 'checkFrame', 'getFrame', 'advanceFrame', 'isFrameReady')], bounded=True))
    return us
