"""helpers shared by the message-level units: class names, request construction"""
from pyvc import lang as L

BR, BW = 'pymodbus.bit_read_message.', 'pymodbus.bit_write_message.'
RR, RW = 'pymodbus.register_read_message.', 'pymodbus.register_write_message.'

REQ = {1: BR + 'ReadCoilsRequest', 2: BR + 'ReadDiscreteInputsRequest', 3: RR + 'ReadHoldingRegistersRequest', 4: RR + 'ReadInputRegistersRequest',
       5: BW + 'WriteSingleCoilRequest', 6: RW + 'WriteSingleRegisterRequest', 15: BW + 'WriteMultipleCoilsRequest',
       16: RW + 'WriteMultipleRegistersRequest', 22: RW + 'MaskWriteRegisterRequest', 23: RR + 'ReadWriteMultipleRegistersRequest'}
RSP = {1: BR + 'ReadCoilsResponse', 2: BR + 'ReadDiscreteInputsResponse', 3: RR + 'ReadHoldingRegistersResponse', 4: RR + 'ReadInputRegistersResponse',
       5: BW + 'WriteSingleCoilResponse', 6: RW + 'WriteSingleRegisterResponse', 15: BW + 'WriteMultipleCoilsResponse',
       16: RW + 'WriteMultipleRegistersResponse', 22: RW + 'MaskWriteRegisterResponse', 23: RR + 'ReadWriteMultipleRegistersResponse'}

# quantity limits, transcribed from the property statement / MODBUS AP v1.1b3
LIMITS = {1: 2000, 2: 2000, 3: 125, 4: 125, 15: 1968, 16: 123}
RWM_READ, RWM_WRITE = 125, 121


def base_fields():
    return dict(transaction_id=0, protocol_id=0, unit_id=0, skip_encode=False, check=0)


def request(E, fc, **fields):
    f = base_fields()
    f.update(fields)
    return E.obj(REQ[fc], **f)


def is_exception(E, resp, fc, code):
    if E.classname(resp) != 'ExceptionResponse':
        return False
    return L.And(resp.function_code == (fc | 0x80), resp.exception_code == code)


def short(q):
    return q.split('.')[-1]
