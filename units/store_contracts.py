"""Contracts (pre + executable reference spec) for the datastore: the abstract view of a block is
the partial map  cells: address -> value  with domain [address, address+len(values)) for a
sequential block and the key set for a sparse block (DESIGN C04/C18)."""
from pyvc.unit import FunctionContract, LoopAnn
from pyvc import lang as L

LAYOUTS = ('seq', 'sparse')
SEQ = 'pymodbus.datastore.store.ModbusSequentialDataBlock'
SPARSE = 'pymodbus.datastore.store.ModbusSparseDataBlock'
SLAVE = 'pymodbus.datastore.context.ModbusSlaveContext'
SERVER = 'pymodbus.datastore.context.ModbusServerContext'

# function code -> table, transcribed from MODBUS AP v1.1b3 section 6 (not from interfaces.py)
TABLE_OF_FC = {1: 'c', 5: 'c', 15: 'c', 2: 'd', 4: 'i', 3: 'h', 6: 'h', 16: 'h', 22: 'h', 23: 'h'}
BIT_TABLES = ('c', 'd')


def seq_block(E, name, elem='int'):
    vals = E.bools(name + '_vals') if elem == 'bool' else E.ints(name + '_vals', 0, 65536)
    return E.obj(SEQ, address=E.int(name + '_addr', 0, 70000), values=vals, default_value=(False if elem == 'bool' else 0))


def seq_in_domain(blk, a):
    return L.And(blk.address <= a, a < blk.address + L.length(blk.values))


def seq_valid(blk, address, count):
    """all count cells from address lie inside the block (stated on the two end points)"""
    return L.And(blk.address <= address, address + count <= blk.address + L.length(blk.values))


class SeqValidate(FunctionContract):
    qual = SEQ + '.validate'
    props = ('C18', 'C04', 'C05')

    def make(self, E):
        return [seq_block(E, 'b'), E.int('address'), E.int('count')], {}

    def spec(self, E, blk, address, count=1):
        return seq_valid(blk, address, count)


class SeqGetValues(FunctionContract):
    qual = SEQ + '.getValues'
    props = ('C18', 'C04', 'C05')

    def make(self, E):
        return [seq_block(E, 'b'), E.int('address'), E.int('count')], {}

    def pre(self, E, blk, address, count=1):
        # caller-side obligation: a read is made only after validate() accepted the range
        return L.And(count >= 1, seq_valid(blk, address, count))

    def spec(self, E, blk, address, count=1):
        return L.seq(count, lambda k: L.at(blk.values, address - blk.address + k))


class SeqSetValues(FunctionContract):
    qual = SEQ + '.setValues'
    props = ('C18', 'C04', 'C05')

    def make(self, E):
        return [seq_block(E, 'b'), E.int('address'), E.ints('new', 0, 65536, minlen=1)], {}

    def pre(self, E, blk, address, values):
        n = L.length(values)
        return L.And(n >= 1, seq_valid(blk, address, n))

    def spec(self, E, blk, address, values):
        old, n, s = blk.values, L.length(values), address - blk.address
        blk.values = L.seq(L.length(old), lambda k: L.ite(L.And(k >= s, k < s + n), L.at(values, k - s), L.at(old, k)))
        return None


def sparse_block(E, name, elem='int'):
    return E.obj(SPARSE, values=(E.intmap(name + '_vals', elem) if elem == 'bool' else E.intmap(name + '_vals', elem, 0, 65536)), address=E.int(name + '_addr'), default_value=(False if elem == 'bool' else 0))


def sparse_valid(blk, address, count):
    return L.And(count != 0, L.forall(address, address + count, lambda k: L.map_has(blk.values, k)))


class SparseValidate(FunctionContract):
    qual = SPARSE + '.validate'
    props = ('C18', 'C04', 'C05')

    def make(self, E):
        return [sparse_block(E, 's'), E.int('address'), E.int('count')], {}

    def spec(self, E, blk, address, count=1):
        return sparse_valid(blk, address, count)


def slave_context(E, name='ctx', shared=False, zero_mode=None, layout='seq'):
    """a slave context over four blocks (bit tables hold bools), all sequential or all sparse; zero_mode symbolic unless given"""
    blocks = {}
    if layout == 'shared':
        # one sequential block behind both bit tables and one behind both register tables (the same block object twice)
        blocks['d'] = blocks['c'] = seq_block(E, '%s_bits' % name, 'bool')
        blocks['i'] = blocks['h'] = seq_block(E, '%s_regs' % name, 'int')
    for t in ('dcih' if layout != 'shared' else ''):
        mkblk = seq_block if layout == 'seq' else sparse_block
        blocks[t] = mkblk(E, '%s_%s' % (name, t), 'bool' if t in BIT_TABLES else 'int')
    zm = E.bool(name + '_zero_mode') if zero_mode is None else zero_mode
    return E.obj(SLAVE, store=blocks, zero_mode=zm)


def offset(ctx):
    return L.ite(ctx.zero_mode, 0, 1)


class SparseGetValues(FunctionContract):
    qual = SPARSE + '.getValues'
    props = ('C18', 'C04', 'C05')

    def make(self, E):
        return [sparse_block(E, 's'), E.int('address'), E.int('count')], {}

    def pre(self, E, blk, address, count=1):
        return L.And(count >= 1, sparse_valid(blk, address, count))

    def spec(self, E, blk, address, count=1):
        return L.seq(count, lambda k: L.map_get(blk.values, address + k))


def _sparse_written(v, j):
    exp = v.old.snapshot()
    L.map_set_range(exp, v.address, L.slice_(v.values, 0, j))
    return v.E.same_state(v.self.values, exp)


class SparseSetValues(FunctionContract):
    """list form of setValues (the form every request handler uses): cells address.. := values, every other cell and the key set otherwise unchanged"""
    qual = SPARSE + '.setValues'
    props = ('C18', 'C04', 'C05')
    loops = {1: LoopAnn('cells', _sparse_written, entry=lambda v: {'old': v.self.values.snapshot()})}

    def make(self, E):
        return [sparse_block(E, 's'), E.int('address'), E.ints('new', 0, 65536, minlen=1)], {}

    def pre(self, E, blk, address, values):
        n = L.length(values)
        return L.And(n >= 1, sparse_valid(blk, address, n))

    def spec(self, E, blk, address, values):
        L.map_set_range(blk.values, address, values)
        return None


# ----------------------------------------------------------------------------- generic block view (dispatch on class)
def block_valid(E, blk, address, count):
    if E.classname(blk) == 'ModbusSparseDataBlock':
        return sparse_valid(blk, address, count)
    return seq_valid(blk, address, count)


def block_cell(E, blk, a):
    if E.classname(blk) == 'ModbusSparseDataBlock':
        return L.map_get(blk.values, a)
    return L.at(blk.values, a - blk.address)


def block_has(E, blk, a):
    if E.classname(blk) == 'ModbusSparseDataBlock':
        return L.map_has(blk.values, a)
    return seq_in_domain(blk, a)


def table(ctx, fx):
    return ctx.store[TABLE_OF_FC[fx]]


class SlaveValidate(FunctionContract):
    """ModbusSlaveContext.validate: table chosen by function code, documented +1 offset unless zero_mode"""
    qual = SLAVE + '.validate'
    props = ('C18', 'C04', 'C05')
    callee_contracts = (SeqValidate(), SparseValidate())

    def make(self, E):
        return [slave_context(E, layout=E.choice('layout', LAYOUTS)), E.choice('fx', sorted(TABLE_OF_FC)), E.int('address', 0, 65536), E.int('count', 0, 65536)], {}

    def spec(self, E, ctx, fx, address, count=1):
        return block_valid(E, table(ctx, fx), address + offset(ctx), count)


class SlaveGetValues(FunctionContract):
    qual = SLAVE + '.getValues'
    props = ('C18', 'C04', 'C05')
    callee_contracts = (SeqGetValues(), SparseGetValues())

    def make(self, E):
        return [slave_context(E, layout=E.choice('layout', LAYOUTS)), E.choice('fx', sorted(TABLE_OF_FC)), E.int('address', 0, 65536), E.int('count', 0, 65536)], {}

    def pre(self, E, ctx, fx, address, count=1):
        return L.And(count >= 1, block_valid(E, table(ctx, fx), address + offset(ctx), count))

    def spec(self, E, ctx, fx, address, count=1):
        blk, off = table(ctx, fx), offset(ctx)
        return L.seq(count, lambda k: block_cell(E, blk, address + off + k))


class SlaveSetValues(FunctionContract):
    qual = SLAVE + '.setValues'
    props = ('C18', 'C04', 'C05')
    callee_contracts = (SeqSetValues(), SparseSetValues())

    def make(self, E):
        fx = E.choice('fx', sorted(TABLE_OF_FC))
        vals = E.bools('new', minlen=1) if TABLE_OF_FC[fx] in BIT_TABLES else E.ints('new', 0, 65536, minlen=1)
        return [slave_context(E, layout=E.choice('layout', LAYOUTS)), fx, E.int('address', 0, 65536), vals], {}

    def pre(self, E, ctx, fx, address, values):
        return L.And(L.length(values) >= 1, block_valid(E, table(ctx, fx), address + offset(ctx), L.length(values)))

    def spec(self, E, ctx, fx, address, values):
        blk = table(ctx, fx)
        if E.classname(blk) == 'ModbusSparseDataBlock':
            L.map_set_range(blk.values, address + offset(ctx), values)
            return None
        old, n, s = blk.values, L.length(values), address + offset(ctx) - blk.address
        blk.values = L.seq(L.length(old), lambda k: L.ite(L.And(k >= s, k < s + n), L.at(values, k - s), L.at(old, k)))
        return None


STORE_CONTRACTS = (SeqValidate(), SeqGetValues(), SeqSetValues(), SparseValidate(), SparseGetValues(), SparseSetValues())
SLAVE_CONTRACTS = (SlaveValidate(), SlaveGetValues(), SlaveSetValues())


FX_OF = {'d': 2, 'c': 1, 'i': 4, 'h': 3}


def default_blocks_lemma(E):
    """the constructor of the real ModbusSlaveContext: a table the caller leaves out gets a fully populated block of its own.  Two contexts
    built with any combination of supplied / omitted tables: a write to one table of the first shows in no other table of that
    context and in no table of the second (the tables, and the units of a server, do not share storage behind the caller's back)"""
    given = E.choice('supplied', ['', 'h', 'ch', 'di', 'dcih'])
    names = {'d': 'di', 'c': 'co', 'i': 'ir', 'h': 'hr'}

    def build():
        return E.new(SLAVE, **{names[t]: E.new(SEQ, 0, [0] * 40) for t in given})
    c1, c2 = build(), build()
    t = E.choice('table', ['d', 'c', 'i', 'h'])
    address = E.choice('address', [0, 1, 7, 30])
    probe = [(c, u) for c in (c1, c2) for u in 'dcih' if not (c is c1 and u == t)]
    before = [E.method(c, 'getValues', FX_OF[u], address, 2) for (c, u) in probe]
    E.method(c1, 'setValues', FX_OF[t], address, [9, 9])
    E.prove('init:the-write-arrived', L.eq(E.method(c1, 'getValues', FX_OF[t], address, 2), [9, 9]))
    for k, (c, u) in enumerate(probe):
        E.prove('init:a-write-to-one-table-shows-in-no-other-table-of-any-context[%s.%s]' % ('same' if c is c1 else 'other', u),
                L.eq(E.method(c, 'getValues', FX_OF[u], address, 2), before[k]))


def default_blocks_unit(prop):
    from pyvc.unit import Unit
    return Unit('%s/context.init.own-blocks' % prop, default_blocks_lemma, [prop],
                functions=[SLAVE + '.__init__', SEQ + '.create', SEQ + '.__init__', SLAVE + '.setValues', SLAVE + '.getValues', SEQ + '.setValues', SEQ + '.getValues'])
