"""C04 - the server executes data-access requests as a Modbus register file.

Every execute() of FC 1,2,3,4,5,6,15,16,22,23 is proved against the S-REG step function on its
normal path: the response and the post-state of the *four tables* (whole view, not only the
touched cells) are what the Modbus data model prescribes.  Callees (slave context, blocks) are
replaced by their contracts (units/store_contracts.py), which are verified separately.
History: the implementation state after k requests equals the S-REG state after the same k
requests by induction on k - the induction step is exactly these per-request lemmas; 'a read
returns the value most recently written' is then a theorem of the map model (lemma sreg.*)."""
from pyvc.unit import Unit
from pyvc import lang as L
from . import store_contracts as S
from . import msgs as M

TRUSTED = ['S-REG: register-file model written from MODBUS AP v1.1b3 (four tables, FC->table map, mask-write formula, write-before-read for FC 23)']
ASSUMPTIONS = ['tables are backed by distinct block objects unless a unit says otherwise (A6); a layout sharing one block between tables changes both views together because contracts speak about block objects',
               'contexts over four sequential blocks, four sparse blocks (arbitrary key sets), or one block shared by the two bit tables and one by the two register tables; other mixtures are not examined']

CONTRACTS = S.SLAVE_CONTRACTS


def is_sparse(blk):
    return type(blk).__name__ == 'ModbusSparseDataBlock' or getattr(getattr(blk, 'cls', None), 'name', '') == 'ModbusSparseDataBlock'


def cell(ctx, t, a):
    """S-REG: value of table t at protocol address a (view through the zero-mode offset)"""
    blk = ctx.store[t]
    if is_sparse(blk):
        return L.map_get(blk.values, a + S.offset(ctx))
    return L.at(blk.values, a + S.offset(ctx) - blk.address)


def tables_unchanged(E, ctx, before, except_table=None):
    cs = []
    for t in 'dcih':
        # a table backed by the very block object of the written table is that table (shared layout): it changes with it
        if t != except_table and not (except_table is not None and ctx.store[t] is ctx.store[except_table]):
            cs.append(E.same_state(ctx.store[t], before.store[t]))
    cs.append(L.Iff(ctx.zero_mode, before.zero_mode))
    return L.And(*cs)


def table_updated(ctx, before, t, a, n, newval, E=None):
    """whole-view postcondition: table t equals the old table with cells a..a+n-1 replaced by newval(j)"""
    blk, old = ctx.store[t], before.store[t]
    if is_sparse(blk):
        # same key set (the addressed keys were all present: validate), addressed cells replaced, every other cell as before
        exp = old.values.snapshot() if hasattr(old.values, 'snapshot') else dict(old.values)
        L.map_set_range(exp, a + S.offset(before), L.seq(n, newval, elem=('bool' if t in S.BIT_TABLES else 'int')))
        return E.same_state(blk.values, exp) if hasattr(exp, 'snapshot') else blk.values == exp
    s = a + S.offset(before) - old.address
    return L.And(blk.address == old.address, L.length(blk.values) == L.length(old.values),
                 L.forall(0, L.length(old.values), lambda k: L.at(blk.values, k) == L.ite(L.And(s <= k, k < s + n), newval(k - s), L.at(old.values, k))))


def normal(E, resp, fc):
    """the response is the normal response class for fc"""
    return E.classname(resp) == M.short(M.RSP[fc])


def read_lemma(fc):
    t = S.TABLE_OF_FC[fc]

    def lemma(E):
        ctx = S.slave_context(E, layout=E.choice('layout', S.LAYOUTS + ('shared',)))
        a, c = E.int('address', 0, 65536), E.int('count', 0, 65536)
        req = M.request(E, fc, address=a, count=c)
        before = E.clone(ctx)
        resp = E.method(req, 'execute', ctx)
        E.prove('read:store-unchanged', tables_unchanged(E, ctx, before))
        if normal(E, resp, fc):
            vals = resp.bits if t in S.BIT_TABLES else resp.registers
            E.prove('read:count-values', L.length(vals) == c)
            E.prove('read:values-are-the-cells', L.forall(0, c, lambda k: L.at(vals, k) == cell(before, t, a + k)))
            E.cover('normal')
    return lemma


def write_single_lemma(fc):
    t = S.TABLE_OF_FC[fc]

    def lemma(E):
        ctx = S.slave_context(E, layout=E.choice('layout', S.LAYOUTS + ('shared',)))
        a = E.int('address', 0, 65536)
        v = E.bool('value') if fc == 5 else E.int('value', 0, 65536)
        req = M.request(E, fc, address=a, value=v)
        before = E.clone(ctx)
        resp = E.method(req, 'execute', ctx)
        if normal(E, resp, fc):
            E.prove('write1:exactly-that-cell', table_updated(ctx, before, t, a, 1, lambda j: v, E))
            E.prove('write1:other-tables-unchanged', tables_unchanged(E, ctx, before, except_table=t))
            E.prove('write1:echo', L.And(resp.address == a, L.eq(resp.value, v) if fc == 6 else L.Iff(L.truth(resp.value), v)))
            E.cover('normal')
        else:
            E.prove('write1:exception->unchanged', tables_unchanged(E, ctx, before))
    return lemma


def write_multi_lemma(fc):
    t = S.TABLE_OF_FC[fc]

    def lemma(E):
        ctx = S.slave_context(E, layout=E.choice('layout', S.LAYOUTS + ('shared',)))
        a = E.int('address', 0, 65536)
        if fc == 15:
            vals = E.bools('values', maxlen=2040)
            n = L.length(vals)
            req = M.request(E, fc, address=a, values=vals, byte_count=(n + 7) // 8)
        else:
            vals = E.ints('values', 0, 65536, maxlen=127)
            n = L.length(vals)
            req = M.request(E, fc, address=a, values=vals, count=n, byte_count=2 * n)
        before = E.clone(ctx)
        resp = E.method(req, 'execute', ctx)
        if normal(E, resp, fc):
            E.prove('writeN:exactly-those-cells', table_updated(ctx, before, t, a, n, lambda j: L.at(vals, j), E))
            E.prove('writeN:other-tables-unchanged', tables_unchanged(E, ctx, before, except_table=t))
            E.prove('writeN:echo', L.And(resp.address == a, resp.count == n))
            E.cover('normal')
        else:
            E.prove('writeN:exception->unchanged', tables_unchanged(E, ctx, before))
    return lemma


def wire_write_lemma(fc):
    """the same statement from the wire: a write request as the server decoder makes it of the PDU bytes (register words and coil bits as
    they stand on the wire, top bit included) leaves exactly those values in exactly those cells.  decode is replaced by its contract,
    which is verified against the real decode in this check (contract/...decode units)"""
    from spec import pdu as P
    from . import codec_contracts as K
    t = S.TABLE_OF_FC[fc]

    def lemma(E):
        ctx = S.slave_context(E, layout='seq')
        head = E.bytes_n('head', 5)
        a, q, bc = P.u16_at(head, 0), P.u16_at(head, 2), L.at(head, 4)
        data = E.bytes('data', 1, 246)
        E.assume(L.And(L.length(data) == bc, bc == (2 * q if fc == 16 else (q + 7) // 8), q >= 1))
        dec = E.new('pymodbus.factory.ServerDecoder')
        req = E.method(dec, 'decode', E.as_bytes(L.concat([fc], head, data)))
        before = E.clone(ctx)
        resp = E.method(req, 'execute', ctx)
        if normal(E, resp, fc):
            want = (lambda j: P.u16_at(data, 2 * j)) if fc == 16 else (lambda j: ((L.at(data, j // 8) // (2 ** (j % 8))) % 2) == 1)
            E.prove('wire:the-cells-hold-the-values-that-stood-on-the-wire', table_updated(ctx, before, t, a, q, want, E))
            E.cover('normal')
    return lemma


def wire_write_twin(g):
    """well-formed FC 16 PDUs with register words from the whole 16-bit range (boundary values 0x7FFF / 0x8000 / 0xFFFF favoured)"""
    r = g.r
    q = r.choice([1, 2, 3, 8])
    a = r.randrange(0, 10)
    words = [r.choice([0, 1, 0x7FFF, 0x8000, 0xFFFF, r.randrange(65536)]) for _ in range(q)]
    data = []
    for w in words:
        data += [w >> 8, w & 255]
    out = {'data': {'items': data}}
    for k, b in enumerate([0, a, 0, q, 2 * q]):
        out['head[%d]' % k] = b
    for t in 'dcih':
        out['ctx_%s_addr' % t] = r.choice([0, 1])
        out['ctx_%s_vals' % t] = {'items': [(r.random() < 0.5) if t in 'dc' else r.randrange(65536) for _ in range(30)]}
    return out


def mask_write_lemma(E):
    ctx = S.slave_context(E, layout=E.choice('layout', S.LAYOUTS + ('shared',)))
    a, am, om = E.int('address', 0, 65536), E.int('and_mask', 0, 65536), E.int('or_mask', 0, 65536)
    req = M.request(E, 22, address=a, and_mask=am, or_mask=om)
    before = E.clone(ctx)
    resp = E.method(req, 'execute', ctx)
    if normal(E, resp, 22):
        cur = cell(before, 'h', a)
        # S-REG: Result = (Current AND And_Mask) OR (Or_Mask AND (NOT And_Mask))   [MODBUS AP v1.1b3 6.16]
        want = (cur & am) | (om & (0xffff - am))
        E.prove('mask:result-formula', cell(ctx, 'h', a) == want)
        E.prove('mask:frame', table_updated(ctx, before, 'h', a, 1, lambda j: cell(ctx, 'h', a), E))
        E.prove('mask:other-tables-unchanged', tables_unchanged(E, ctx, before, except_table='h'))
        E.prove('mask:echo', L.And(resp.address == a, resp.and_mask == am, resp.or_mask == om))
        E.cover('normal')
    else:
        E.prove('mask:exception->unchanged', tables_unchanged(E, ctx, before))


def rwm_lemma(E):
    ctx = S.slave_context(E, layout=E.choice('layout', S.LAYOUTS + ('shared',)))
    ra, rc, wa = E.int('read_address', 0, 65536), E.int('read_count', 0, 65536), E.int('write_address', 0, 65536)
    regs = E.ints('write_registers', 0, 65536, maxlen=127)
    n = L.length(regs)
    req = M.request(E, 23, read_address=ra, read_count=rc, write_address=wa, write_registers=regs, write_count=n, write_byte_count=2 * n)
    before = E.clone(ctx)
    resp = E.method(req, 'execute', ctx)
    if normal(E, resp, 23):
        E.prove('rwm:write-applied', table_updated(ctx, before, 'h', wa, n, lambda j: L.at(regs, j), E))
        E.prove('rwm:other-tables-unchanged', tables_unchanged(E, ctx, before, except_table='h'))
        # the write is applied before the read: the response shows the post-write cells
        E.prove('rwm:read-after-write', L.And(L.length(resp.registers) == rc,
                                                L.forall(0, rc, lambda k: L.at(resp.registers, k) == cell(ctx, 'h', ra + k))))
        E.cover('normal')
    else:
        E.prove('rwm:exception->unchanged', tables_unchanged(E, ctx, before))


def table_map(E):
    """function code -> table, against the spec table (finite, exhaustive)"""
    fc = E.choice('fc', sorted(S.TABLE_OF_FC))
    ctx = S.slave_context(E, layout=E.choice('layout', S.LAYOUTS + ('shared',)))
    E.prove('fx-mapper', E.method(ctx, 'decode', fc) == S.TABLE_OF_FC[fc])


def sreg_read_your_writes(E):
    """theorem of the S-REG map model used to close the history quantifier: after write(a, v) a read of
    a returns v and a read of any other cell returns what it held before"""
    n = E.int('n', 0, None)
    old = E.ints('table', 0, 65536)
    E.assume(L.length(old) == n)
    a, v, b = E.int('a', 0, None), E.int('v', 0, 65536), E.int('b', 0, None)
    E.assume(L.And(a < n, b < n))
    new = L.seq(n, lambda k: L.ite(k == a, v, L.at(old, k)))
    E.prove('sreg:read-your-write', L.at(new, a) == v)
    E.prove('sreg:frame', L.Implies(b != a, L.at(new, b) == L.at(old, b)))


def storage_lemma(E):
    """tables shared or separate: two blocks are one table exactly when they are the same block object.  Two blocks CONSTRUCTED from the same
    list of initial values are separate tables - a write through one is not seen through the other and does not reach the caller's list"""
    init = E.ints('initial_values', 0, 65536, 1, 64)
    a = E.int('start', 0, 1000)
    snapshot = E.clone(init)
    b1 = E.new(S.SEQ, a, init)
    b2 = E.new(S.SEQ, a, init)
    j, v = E.int('offset', 0, 64), E.int('value', 0, 65536)
    E.assume(j < L.length(init))
    before2 = E.clone(b2)
    E.method(b1, 'setValues', a + j, [v])
    E.prove('storage:a-write-to-one-block-is-seen-in-that-block', L.at(E.get(b1, 'values'), j) == v)
    E.prove('storage:the-other-block-built-from-the-same-list-is-untouched', E.same_state(b2, before2))
    E.prove('storage:the-callers-list-is-untouched', L.eq(init, snapshot))


def get_units():
    us = [Unit('C04/layout.blocks-own-their-storage', storage_lemma, ['C04'], functions=[S.SEQ + '.__init__', S.SEQ + '.setValues'])]
    us.append(S.default_blocks_unit('C04'))
    for fc in (1, 2, 3, 4):
        us.append(Unit('C04/fc%02d.read' % fc, read_lemma(fc), ['C04'], contracts=CONTRACTS, functions=[M.REQ[fc] + '.execute']))
    for fc in (5, 6):
        us.append(Unit('C04/fc%02d.write_single' % fc, write_single_lemma(fc), ['C04'], contracts=CONTRACTS, functions=[M.REQ[fc] + '.execute']))
    for fc in (15, 16):
        us.append(Unit('C04/fc%02d.write_multiple' % fc, write_multi_lemma(fc), ['C04'], contracts=CONTRACTS, functions=[M.REQ[fc] + '.execute']))
    from . import codec_contracts as K
    us.append(Unit('C04/fc16.from-the-wire', wire_write_lemma(16), ['C04'], contracts=CONTRACTS + (K.WMRegsDecode(),), twin=wire_write_twin,
                   functions=[M.REQ[16] + '.decode', M.REQ[16] + '.execute']))
    us.append(K.WMRegsDecode().unit())
    us.append(Unit('C04/fc22.mask_write', mask_write_lemma, ['C04'], contracts=CONTRACTS, functions=[M.REQ[22] + '.execute']))
    us.append(Unit('C04/fc23.read_write_multiple', rwm_lemma, ['C04'], contracts=CONTRACTS, functions=[M.REQ[23] + '.execute']))
    us.append(Unit('C04/table_map', table_map, ['C04'], functions=['pymodbus.interfaces.IModbusSlaveContext.decode']))
    us.append(Unit('C04/sreg.read_your_writes', sreg_read_your_writes, ['C04']))
    for c in S.STORE_CONTRACTS + S.SLAVE_CONTRACTS:
        us.append(c.unit())
    return us
