"""C06 - framing is independent of how the byte stream is chunked.

Per-call contracts over valid frames V = S-ADU(unit, fc, payload) with arbitrary fields, and an arbitrary remainder R:
  step      receiver at a frame boundary (clean header), buffer + chunk == V ++ R: the first loop iteration delivers exactly the
            message decoded from V's PDU (unit id / tid preserved) and leaves buffer == R with a clean header - the induction
            step of 'delivered == Frames(received)' for any number of frames per read (later iterations start from the same
            kind of state and are cut)
  partial   receiver at a frame boundary, the bytes received so far (in one or two reads, cut positions symbolic) are a proper
            prefix P of V: no exception escapes, nothing is delivered, the buffer holds exactly P
  resume    after such partial reads, the read that completes the frame behaves exactly as if V ++ R had arrived in one read
From step + partial + resume the delivered sequence is a function of the received bytes alone (chunk independence).
ASCII satisfies all three.  The socket, RTU and binary framers satisfy `step` for whole frames and have known findings
for every partial read (they drop or reject incomplete frames)."""
from pyvc.unit import Unit
from pyvc import lang as L
from spec import adu as A
from spec import checks as CK
from spec import pdu as P
from . import framers as F
from . import codec_contracts as K

TRUSTED = ['S-ADU (spec/adu.py)']
ASSUMPTIONS = ['the decoder is abstracted: it returns a message for every non-empty PDU (C01 decides which PDUs decode)',
               'binary frames without delimiter bytes in unit/PDU/CRC (C03-F1 covers the rest)',
               'RTU length oracle returns the true frame length once it can be computed (C03 oracle units), raises IndexError on shorter buffers']
PROP = 'C06'
CS = (K.ComputeCRC(), K.ComputeLRC())


def valid_frame(E, kind, tag=''):
    """an arbitrary valid frame of the framing, given relationally: arbitrary bytes constrained by the S-ADU validity conditions
    (so no construction terms burden the solver); returns (frame bytes, {uid, pdu, tid, pid})"""
    t, p = E.int(tag + 'tid', 0, 65536), E.int(tag + 'pid', 0, 65536)
    if kind == 'socket':
        u = E.int(tag + 'uid', 1, 248)
        pdu = E.bytes(tag + 'pdu', 1, 253)
        v = L.concat(P.be16(t), P.be16(p), P.be16(L.length(pdu) + 1), [u], pdu)
    elif kind == 'rtu':
        body = E.bytes(tag + 'unit+pdu', 2, 254)
        u, pdu = L.at(body, 0), L.slice_(body, 1, None)
        v = L.concat(body, CK.crc_bytes(E, body))
    elif kind == 'ascii':
        h = E.bytes(tag + 'hextext', 6, 508)            # upper-case hex text of unit, PDU and LRC
        n = L.length(h)
        E.assume(n % 2 == 0)
        E.assume(L.forall(0, n, lambda k: L.Or(L.And(L.at(h, k) >= 48, L.at(h, k) <= 57), L.And(L.at(h, k) >= 65, L.at(h, k) <= 70))))
        body = CK.unhex(L.slice_(h, 0, n - 2))
        E.assume(CK.lrc(E, body) == CK.hexval(L.at(h, n - 2)) * 16 + CK.hexval(L.at(h, n - 1)))
        u = CK.hexval(L.at(h, 0)) * 16 + CK.hexval(L.at(h, 1))
        pdu = CK.unhex(L.slice_(h, 2, n - 2))
        v = L.concat([0x3A], h, [0x0D, 0x0A])
    else:
        b = E.bytes(tag + 'unit+pdu+crc', 4, 256)
        n = L.length(b)
        E.assume(L.forall(0, n, lambda k: L.And(L.at(b, k) != 0x7B, L.at(b, k) != 0x7D)))
        E.assume(L.eq(CK.crc_bytes(E, L.slice_(b, 0, n - 2)), L.slice_(b, n - 2, n)))
        u, pdu = L.at(b, 0), L.slice_(b, 1, n - 2)
        v = L.concat([0x7B], b, [0x7D])
    return E.as_bytes(v), dict(uid=u, pdu=pdu, tid=t, pid=p)


def twin_inputs(kind, tags=('',)):
    """concrete valid frames for the executable twin (random inputs would hardly ever satisfy the checksum assumptions)"""
    def make(g):
        r = g.r
        out = {}
        for tag in tags:
            body = [r.randrange(1, 248)] + [r.randrange(1, 128)] + [r.randrange(256) for _ in range(r.choice([0, 1, 2, 4, 9, 20, 100, 240, 240]))]
            if kind == 'socket':
                out[tag + 'uid'], out[tag + 'pdu'] = body[0], {'items': body[1:]}
            elif kind == 'rtu':
                out[tag + 'unit+pdu'] = {'items': body}
            elif kind == 'ascii':
                lrc = (-sum(body)) % 256
                out[tag + 'hextext'] = {'items': list(''.join('%02X' % b for b in body + [lrc]).encode())}
            else:
                body = [b if b not in (0x7B, 0x7D) else 0x11 for b in body]
                for _attempt in range(5000):
                    crc = 0xFFFF
                    for b in body:
                        crc ^= b
                        for _ in range(8):
                            crc = (crc >> 1) ^ 0xA001 if crc & 1 else crc >> 1
                    full = body + [crc % 256, crc // 256]
                    if 0x7B not in full and 0x7D not in full:
                        break
                    body[1] = r.randrange(1, 0x7B)
                out[tag + 'unit+pdu+crc'] = {'items': full}
        return out
    return make


def receiver(E, kind, rec, frames):
    """fresh receiver; the RTU length oracle answers for the frame at the head of the stream"""
    def size(fcode, buf):
        k = min(len(rec.delivered), len(frames) - 1)
        need = E.int('oracle_needs_bytes', 2, 8)
        E.assume(need <= L.length(frames[k]))       # the size is computed from bytes of the frame itself
        if L.length(buf) < need:
            raise E.Raised('IndexError')
        return L.length(frames[k])
    return F.fresh_framer(E, kind, rec, outcomes=('message',), size_of=size)


def at_boundary(E, f, kind, rec):
    """every attribute of the receiver except the buffer is what a freshly constructed receiver has: the state after a delivered
    frame carries nothing that could change a later decision (induction hypothesis of chunk independence)"""
    ref = F.fresh_framer(E, kind, F.Rec())
    if kind == 'rtu':
        E.method(ref, 'advanceFrame')        # the RTU framer's rest state is an empty header dict
    return E.same_state(f, ref, skip=('_buffer', 'decoder', 'client'))


def check_delivery(E, rec, k, info, label, **fk):
    m, pdu, buf, hdr = rec.delivered[k]
    E.prove(label + ':decoded-from-exactly-the-frames-pdu', L.eq(pdu, info['pdu']) if pdu is not None else False, **fk)
    E.prove(label + ':unit-id', E.get(m, 'unit_id') == info['uid'], **fk)


def step(kind, alone=False):
    """alone: nothing follows the frame (used by C09: every well-formed request frame, however short its body, reaches execute once)"""
    def lemma(E):
        rec = F.Rec()
        v, info = valid_frame(E, kind)
        # symbolic: arbitrary remainder, later iterations cut; the concrete twin cannot stop the real loop after one iteration and uses an empty remainder
        r = E.bytes('remainder', 0, 40) if (E.mode == 'symbolic' and not alone) else E.bytes('remainder', 0, 0)
        f = receiver(E, kind, rec, [v, r])
        cb = E.callback(F.callback(E, rec), 'callback')
        fk = {'finding': 'C06-F3', 'region': L.length(r) > 0} if (kind == 'rtu' and not alone) else {}
        out = E.attempt(lambda: E.method(f, 'processIncomingPacket', E.as_bytes(L.concat(v, r)), cb, [info['uid']], single=False), allow_cut=True)
        E.prove('step:no-exception', out.ok, **fk)
        if not out.ok:
            return
        E.prove('step:the-frame-at-the-head-is-delivered-first', len(rec.delivered) >= 1, **fk)
        if alone:
            E.prove('step:delivered-exactly-once', len(rec.delivered) == 1)
        if rec.delivered:
            check_delivery(E, rec, 0, info, 'step')
            if len(rec.delivered) == 1:
                E.prove('step:buffer-holds-exactly-the-remainder', L.eq(E.get(f, '_buffer'), r), **fk)
                E.prove('step:receiver-otherwise-as-fresh', at_boundary(E, f, kind, rec), **fk)
    return lemma


def partial(kind, cuts):
    """the frame arrives in `cuts`+1 pieces: every read but the last leaves the receiver silently holding what it got; the
    last read (which also brings an arbitrary remainder) delivers the frame exactly as one read would"""
    def lemma(E):
        rec = F.Rec()
        v, info = valid_frame(E, kind)
        n = L.length(v)
        r_info = None
        if E.mode == 'symbolic':
            r = E.bytes('remainder', 0, 20)
        elif E.bool('remainder_is_a_second_frame'):
            # concrete runs cannot stop the real loop after one iteration: the remainder is nothing, or a whole second frame (then both are delivered)
            r, r_info = valid_frame(E, kind, 'r_')
        else:
            r, r_info = E.bytes('remainder', 0, 0), None
        f = receiver(E, kind, rec, [v, r])
        cb = E.callback(F.callback(E, rec), 'callback')
        units = [info['uid']] + ([r_info['uid']] if r_info is not None else [])
        pos = [0]
        for c in range(cuts):
            pos.append(E.int('cut%d' % c, 1, None))        # at least one byte has arrived (an empty first read is the `step` lemma)
            E.assume(L.And(pos[-2] <= pos[-1], pos[-1] < n))
        fk = {} if kind == 'ascii' else {'finding': {'socket': 'C06-F1', 'rtu': 'C06-F2', 'binary': 'C06-F4'}[kind], 'region': pos[-1] > 0}
        for c in range(cuts):
            piece = E.as_bytes(L.slice_(v, pos[c], pos[c + 1]))
            out = E.attempt(lambda: E.method(f, 'processIncomingPacket', piece, cb, units, single=False))
            E.prove('partial:no-exception-while-the-frame-is-incomplete[read %d]' % (c + 1), out.ok, **fk)
            if not out.ok:
                return
            E.prove('partial:nothing-delivered-yet[read %d]' % (c + 1), len(rec.delivered) == 0, **fk)
            E.prove('partial:buffer-retains-exactly-the-received-prefix[read %d]' % (c + 1), L.eq(E.get(f, '_buffer'), L.slice_(v, 0, pos[c + 1])), **fk)
        last = E.as_bytes(L.concat(L.slice_(v, pos[-1], n), r))
        out = E.attempt(lambda: E.method(f, 'processIncomingPacket', last, cb, units, single=False), allow_cut=True)
        E.prove('resume:no-exception', out.ok, **fk)
        if not out.ok:
            return
        E.prove('resume:the-frame-is-delivered-by-the-completing-read', len(rec.delivered) >= 1, **fk)
        if rec.delivered:
            check_delivery(E, rec, 0, info, 'resume', **fk)
            if len(rec.delivered) == 1:
                E.prove('resume:buffer-holds-exactly-the-remainder', L.eq(E.get(f, '_buffer'), r), **fk)
                E.prove('resume:receiver-otherwise-as-fresh', at_boundary(E, f, kind, rec), **fk)
    return lemma


def two_frames(kind):
    """two whole valid frames in one read are both delivered, in order, by that read"""
    def lemma(E):
        rec = F.Rec()
        v1, i1 = valid_frame(E, kind, 'a_')
        v2, i2 = valid_frame(E, kind, 'b_')
        f = receiver(E, kind, rec, [v1, v2])
        cb = E.callback(F.callback(E, rec), 'callback')
        fk = {'finding': 'C06-F3', 'region': True} if kind == 'rtu' else {}
        out = E.attempt(lambda: E.method(f, 'processIncomingPacket', E.as_bytes(L.concat(v1, v2)), cb, [i1['uid'], i2['uid']], single=False), allow_cut=True)
        E.prove('two:no-exception', out.ok, **fk)
        E.prove('two:both-frames-delivered-by-the-read-that-brought-them', len(rec.delivered) == 2, **fk)
        if len(rec.delivered) == 2:
            check_delivery(E, rec, 0, i1, 'two:first')
            check_delivery(E, rec, 1, i2, 'two:second')
    return lemma


def get_units():
    us = []
    for kind in ('socket', 'ascii', 'binary', 'rtu'):
        us.append(Unit('%s/two_frames.%s' % (PROP, kind), two_frames(kind), [PROP], contracts=CS, unroll={(F.QUAL[kind] + '.processIncomingPacket', 0): 3},
                       functions=[F.QUAL[kind] + '.processIncomingPacket'], twin=twin_inputs(kind, ('a_', 'b_'))))
        us[-1].unwind = True      # two frames need at most three iterations: going past the bound is itself an obligation
        unroll = {(F.QUAL[kind] + '.processIncomingPacket', 0): 1}
        fns = [F.QUAL[kind] + '.' + m for m in ('processIncomingPacket', 'checkFrame', 'isFrameReady', 'advanceFrame', 'getFrame')]
        us.append(Unit('%s/step.%s' % (PROP, kind), step(kind), [PROP], contracts=CS, unroll=unroll, functions=fns, twin=twin_inputs(kind)))
        for cuts in ((1, 2) if kind == 'ascii' else (1,)):      # the other framers lose every partial read (known findings): one cut is enough to pin that
            us.append(Unit('%s/partial.%s.%dcut' % (PROP, kind, cuts), partial(kind, cuts), [PROP], contracts=CS, unroll=unroll, functions=fns, twin=twin_inputs(kind, ('', 'r_'))))
    return us
