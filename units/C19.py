"""C19 - payload builder and decoder agree for every byte and word order.

For every typed value and each of the four byte-order x word-order combinations:
  image   add_X(v) appends exactly the S-PAYLOAD register image of v to the builder
  decode  a decoder whose cursor stands at the start of that image (arbitrary bytes before and after) returns v
          and moves the cursor by the width of X  - the sequence statement follows by induction on the value list
  regs    to_registers() is the big-endian 16-bit reading of the payload (zero padded when odd), and
          fromRegisters(to_registers()) restores the payload (+ pad)"""
from pyvc.unit import Unit
from pyvc import lang as L
from spec import payload as SP
from spec import pdu as P
from . import codec_contracts as K
from . import lemmas as LM

TRUSTED = ['S-PAYLOAD transcription of the property statement']
ASSUMPTIONS = ['IEEE-754 conversion of struct for e/f/d formats: uninterpreted bits function with unpack(pack(v)) == v for values representable in the format (library axiom)']

B, D = 'pymodbus.payload.BinaryPayloadBuilder', 'pymodbus.payload.BinaryPayloadDecoder'
ORDERS = [('>', '>'), ('>', '<'), ('<', '>'), ('<', '<')]
INTS = {'8bit_uint': (1, False), '16bit_uint': (2, False), '32bit_uint': (4, False), '64bit_uint': (8, False),
        '8bit_int': (1, True), '16bit_int': (2, True), '32bit_int': (4, True), '64bit_int': (8, True)}
FLOATS = {'16bit_float': (2, 'e'), '32bit_float': (4, 'f'), '64bit_float': (8, 'd')}


def builder(E, bo, wo):
    return E.obj(B, _payload=[], _byteorder=bo, _wordorder=wo, _repack=False)


def decoder(E, payload, pointer, bo, wo):
    return E.obj(D, _payload=payload, _pointer=pointer, _byteorder=bo, _wordorder=wo)


def surround(E, enc):
    """arbitrary bytes before and after the encoded value; returns (payload, cursor)"""
    pre, post = E.bytes('before', 0, 64), E.bytes('after', 0, 64)
    return E.as_bytes(L.concat(pre, enc, post)), L.length(pre)


def int_lemma(name):
    width, signed = INTS[name]

    def lemma(E):
        bo, wo = E.choice('orders', ORDERS)
        lo, hi = (-(256 ** width) // 2, (256 ** width) // 2) if signed else (0, 256 ** width)
        v = E.int('value', lo, hi)
        b = builder(E, bo, wo)
        E.method(b, 'add_' + name, v)
        enc = E.method(b, 'to_string')
        be = SP.be_bytes(SP.unsigned(v, width, signed), width)
        want = SP.single(be, bo) if width <= 2 else SP.image(be, bo, wo)
        E.prove('image:register-image-is-the-conventional-one', L.eq(enc, want))
        payload, cur = surround(E, enc)
        d = decoder(E, payload, cur, bo, wo)
        got = E.method(d, 'decode_' + name)
        E.prove('decode:value-recovered', got == v)
        E.prove('decode:cursor-advances-by-width', E.get(d, '_pointer') == cur + width)
    return lemma


def float_lemma(name):
    width, ch = FLOATS[name]

    def lemma(E):
        bo, wo = E.choice('orders', ORDERS)
        v = E.float('value', ch)
        b = builder(E, bo, wo)
        E.method(b, 'add_' + name, v)
        enc = E.method(b, 'to_string')
        be = E.float_be_bytes(v, ch)          # network-order IEEE-754 bytes of v (struct axiom)
        E.prove('image:register-image-is-the-conventional-one', L.eq(enc, SP.image(be, bo, wo)))
        payload, cur = surround(E, enc)
        d = decoder(E, payload, cur, bo, wo)
        got = E.method(d, 'decode_' + name)
        E.prove('decode:value-recovered', E.float_eq(got, v, ch))
        E.prove('decode:cursor-advances-by-width', E.get(d, '_pointer') == cur + width)
    return lemma


def string_lemma(E):
    bo, wo = E.choice('orders', ORDERS)
    s = E.bytes('text', 0, 200)
    b = builder(E, bo, wo)
    E.method(b, 'add_string', s)
    enc = E.method(b, 'to_string')
    E.prove('image:string-bytes-in-order', L.eq(enc, s))
    payload, cur = surround(E, enc)
    d = decoder(E, payload, cur, bo, wo)
    got = E.method(d, 'decode_string', L.length(s))
    E.prove('decode:value-recovered', L.eq(got, s))
    E.prove('decode:cursor-advances-by-width', E.get(d, '_pointer') == cur + L.length(s))


TEXTS = ['', 'abc', 'T=21', '\u00e9', '\u00dcn\u00efcode', '\u6e29\u5ea6', 'a\u20acb', '21\u00b0C', '\U0001f600x', 'na\u00efve caf\u00e9 \u2713']


def text_lemma(E):
    """a str value (add_string takes text as well as bytes): its image is its UTF-8 encoding, all of it, and decoding that many bytes
    gives the encoding back.  Text is outside the engine's value domain: bounded stand-in over a fixed list of ASCII and non-ASCII texts"""
    bo, wo = E.choice('orders', ORDERS)
    t = E.choice('text', TEXTS)
    want = t.encode()
    b = builder(E, bo, wo)
    E.method(b, 'add_string', t)
    enc = E.method(b, 'to_string')
    E.prove('image:text-is-its-utf8-encoding-in-full', bytes(enc) == want)
    d = decoder(E, bytes(enc) + b'\x55', 0, bo, wo)
    got = E.method(d, 'decode_string', len(want))
    E.prove('decode:text-bytes-recovered', bytes(got) == want)
    E.prove('decode:cursor-advances-by-width', E.get(d, '_pointer') == len(want))


def bits_lemma(E):
    bo, wo = E.choice('orders', ORDERS)
    bits = E.bools('bits', 1, 8)
    b = builder(E, bo, wo)
    E.method(b, 'add_bits', bits)
    enc = E.method(b, 'to_string')
    E.prove('image:one-byte-lsb-first', L.eq(enc, P.packed_bits(bits)))
    payload, cur = surround(E, enc)
    d = decoder(E, payload, cur, bo, wo)
    got = E.method(d, 'decode_bits')
    n = L.length(bits)
    E.prove('decode:eight-bits', L.length(got) == 8)
    E.prove_forall('decode:value-recovered(up to zero padding)', 0, 8, lambda k: L.Iff(L.truth(L.at(got, k)), L.And(k < n, L.truth(L.at(bits, k)))),
                   use=lambda k: [LM.packed_bit(E, bits, k)])
    E.prove('decode:cursor-advances-by-width', E.get(d, '_pointer') == cur + 1)


def sequence_lemma(E):
    """two values back to back: the second decode starts where the first ended (cursor induction, instance)"""
    bo, wo = E.choice('orders', ORDERS)
    a, c = E.int('a', 0, 2 ** 32), E.int('c', -(2 ** 15), 2 ** 15)
    b = builder(E, bo, wo)
    E.method(b, 'add_32bit_uint', a)
    E.method(b, 'add_16bit_int', c)
    d = decoder(E, E.method(b, 'to_string'), 0, bo, wo)
    E.prove('sequence:first', E.method(d, 'decode_32bit_uint') == a)
    E.prove('sequence:second', E.method(d, 'decode_16bit_int') == c)


def registers_lemma(E):
    bo, wo = E.choice('orders', ORDERS)
    chunk = E.bytes('payload', 0, 250)
    n = L.length(chunk)
    b = E.obj(B, _payload=[chunk], _byteorder=bo, _wordorder=wo, _repack=False)
    regs = E.method(b, 'to_registers')
    padded = L.concat(chunk, L.seq(n % 2, lambda k: 0))
    E.prove('regs:count', L.length(regs) == (n + 1) // 2)
    E.prove_forall('regs:big-endian-16-bit-reading', 0, (n + 1) // 2, lambda k: L.at(regs, k) == L.at(padded, 2 * k) * 256 + L.at(padded, 2 * k + 1))
    d = E.call(D + '.fromRegisters', E.tolist(regs), bo, wo)
    back = E.get(d, '_payload')
    E.prove('regs:fromRegisters-restores-payload(+pad):length', L.length(back) == L.length(padded))
    E.prove_forall('regs:fromRegisters-restores-payload(+pad)', 0, L.length(padded), lambda k: L.at(back, k) == L.at(padded, k))
    E.prove('regs:orders-kept', L.And(E.get(d, '_byteorder') == bo, E.get(d, '_wordorder') == wo, E.get(d, '_pointer') == 0))


def get_units():
    cs = (K.PackBitstring(), K.UnpackBitstring())
    us = []
    for nm in INTS:
        us.append(Unit('C19/' + nm, int_lemma(nm), ['C19'], functions=[B + '.add_' + nm, D + '.decode_' + nm, B + '._pack_words', D + '._unpack_words']))
    for nm in FLOATS:
        us.append(Unit('C19/' + nm, float_lemma(nm), ['C19'], functions=[B + '.add_' + nm, D + '.decode_' + nm, B + '._pack_words', D + '._unpack_words']))
    us.append(Unit('C19/string', string_lemma, ['C19'], functions=[B + '.add_string', D + '.decode_string']))
    u = Unit('C19/string.text', text_lemma, ['C19'], functions=[B + '.add_string', D + '.decode_string'])
    u.concrete_only, u.bounded = True, True
    us.append(u)
    us.append(Unit('C19/bits', bits_lemma, ['C19'], contracts=cs, functions=[B + '.add_bits', D + '.decode_bits']))
    us.append(Unit('C19/sequence', sequence_lemma, ['C19'], functions=[B + '.to_string']))
    us.append(Unit('C19/registers', registers_lemma, ['C19'], functions=[B + '.build', B + '.to_registers', D + '.fromRegisters']))
    for c in cs:
        us.append(c.unit())
    us += LM.lemma_units()
    return us
