"""C15 - concurrent callers of one synchronous client are serialised.

Ownership obligations (pyvc/ownership.py) on transaction.py / client/sync.py:
  O1  _transaction_lock is assigned exactly once, in __init__, from a fresh threading.RLock()
  O2  the whole body of ModbusTransactionManager.execute - tid allocation, send, receive, decode, reply pick-up, state
      changes - is one `with self._transaction_lock:` statement
  O3  the methods that touch the guarded state (tid, transactions, framer buffer, client.state, transport) are called
      only from inside that region (or from each other), in every module of the package that uses them
  O4  no second lock and no wait on another thread inside the region (no deadlock among callers)
  O5  the client's public entry (BaseModbusClient.execute) does nothing but enter the region
Given mutual exclusion (assumed semantics of threading.RLock) every schedule is equivalent to some serial order of
whole transactions, and each serial transaction satisfies the C08 contract.  SCHEDULES ARE NOT ENUMERATED: this is the
limit of contract-based verification and is stated in the manifest."""
from pyvc.unit import Unit
from pyvc import ownership as O

TRUSTED = ['threading.RLock provides mutual exclusion and is reentrant (external)']
ASSUMPTIONS = ['interleavings are not explored; only lock-ownership obligations are decided (syntactic + call-graph, pyvc/ownership.py)']
PROP = 'C15'
LEVEL = 'other'     # ownership obligations are decided, schedules are not explored: not reported as a proof of the interleaving statement
TM = 'pymodbus.transaction.ModbusTransactionManager'
LOCK = 'self._transaction_lock'
GUARDED = ['_transact', '_send', '_recv', 'getNextTID', 'addTransaction', 'getTransaction', 'delTransaction']
MODS = ['pymodbus.transaction', 'pymodbus.client.sync', 'pymodbus.client.common']


def own(E, label, result, **kw):
    ok, detail = result
    E.prove(label, ok, backend='ownership', detail=detail, **kw)


def o1(E):
    own(E, 'O1:lock-created-exactly-once-per-manager', O.lock_created_once(TM, '_transaction_lock'))


def o2(E):
    own(E, 'O2:whole-transaction-inside-the-lock', O.body_is_one_with(TM + '.execute', LOCK))


def o3(E):
    own(E, 'O3:guarded-methods-called-only-inside-the-region',
        O.guarded_only(TM + '.execute', LOCK, [TM, 'pymodbus.transaction.DictTransactionManager', 'pymodbus.transaction.FifoTransactionManager'], GUARDED, MODS))


def o4(E):
    own(E, 'O4:no-second-lock-no-wait-inside-the-region', O.no_other_lock([TM + '.' + m for m in ['execute', '_transact', '_send', '_recv', 'getNextTID']], LOCK))


def o5(E):
    calls = O.calls_outside_lock('pymodbus.client.sync.BaseModbusClient.execute', LOCK)
    names = [c[1] for c in calls]
    # the public entry may only hand the request to the transaction manager; anything else it does runs outside the lock
    extra = [n for n in names if n not in ('self.transaction.execute', 'ConnectionException', 'self.__str__')]
    E.prove('O5:client-entry-does-nothing-outside-the-lock', not extra, backend='ownership', detail='calls outside the lock: %r' % extra,
            finding='C15-F1', region=(extra == ['self.connect']))


def o6(E):
    """connect() is the one thing that runs outside the lock (O5 / C15-F1).  It may create the connection, but it must not consume input: a
    read there takes bytes of the reply another thread is in the middle of receiving under the lock"""
    for cls in ('ModbusTcpClient', 'ModbusTlsClient', 'ModbusUdpClient', 'ModbusSerialClient'):
        own(E, 'O6:connect-outside-the-lock-never-reads-from-the-transport[%s]' % cls, O.no_transport_reads('pymodbus.client.sync.%s.connect' % cls))


def directed_race():
    """directed two-thread schedule confirming O5 on the real code: thread B passes connect()'s `if self.socket` test, is
    pre-empted before it stores its new socket; thread A connects, takes the lock and sends; B stores its socket; A then
    receives from B's socket and loses the reply that sits on its own.  Returns True when A got its own reply."""
    import threading
    from pymodbus.client.sync import BaseModbusClient
    from pymodbus.factory import ClientDecoder
    from pymodbus.transaction import ModbusSocketFramer
    from pymodbus.bit_read_message import ReadCoilsRequest
    a_sent, b_stored, b_checked = threading.Event(), threading.Event(), threading.Event()

    class Sock:
        def __init__(self, name):
            self.name, self.out, self.inp = name, b'', b''

    class Client(BaseModbusClient):
        def __init__(self):
            self.socket = None
            BaseModbusClient.__init__(self, ModbusSocketFramer(ClientDecoder(), self), retries=0)

        def connect(self):                       # same shape as ModbusTcpClient.connect: test, create, store
            if self.socket:
                return True
            me = threading.current_thread().name
            s = Sock(me)
            if me == 'B':
                b_checked.set()
                a_sent.wait(5)                   # pre-empted between creating the socket and storing it
            else:
                b_checked.wait(5)
            self.socket = s
            if me == 'B':
                b_stored.set()
            return True

        def _send(self, request):
            sock = self.socket
            sock.out += request
            tid = request[0:2]
            sock.inp += tid + b'\x00\x00\x00\x04\x01\x01\x01\x01'   # the server's reply arrives on the socket the request went out on
            if threading.current_thread().name == 'A':
                a_sent.set()
                b_stored.wait(5)
            return len(request)

        def _recv(self, size):
            sock = self.socket
            data, sock.inp = sock.inp[:size], sock.inp[size:]
            return data
    c = Client()
    res = {}

    def run(name):
        res[name] = c.execute(ReadCoilsRequest(1, 1, unit=1))
    tb = threading.Thread(target=run, args=('B',), name='B')
    ta = threading.Thread(target=run, args=('A',), name='A')
    tb.start(); b_checked.wait(5); ta.start()
    ta.join(10); tb.join(10)
    return hasattr(res.get('A'), 'bits') and hasattr(res.get('B'), 'bits')


def o5_witness(E):
    if E.mode == 'concrete':
        E.prove('O5:directed-two-thread-schedule-every-caller-gets-its-reply', directed_race(), finding='C15-F1', region=True)
    else:
        E.prove('O5:directed-two-thread-schedule(concrete only)', True, backend='ownership')


def get_units():
    us = []
    for nm, fn in (('O1', o1), ('O2', o2), ('O3', o3), ('O4', o4), ('O5', o5), ('O5.witness', o5_witness), ('O6', o6)):
        u = Unit('%s/%s' % (PROP, nm), fn, [PROP], functions=[TM + '.execute'])
        u.backend = 'ownership'
        us.append(u)
    return us
