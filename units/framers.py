"""Shared scaffolding for the receive-side lemmas (C03 round trip, C06, C07, C11): a framer in an arbitrary state, a
stub decoder that records exactly which bytes it was handed (and the buffer at that moment), a callback that records
deliveries."""
from pyvc import lang as L
from pyvc.unit import LoopAnn
from spec import checks as CK
from spec import pdu as P

FR = 'pymodbus.framer.'
SOCKET, RTU, ASCII, BINARY, TLS = (FR + 'socket_framer.ModbusSocketFramer', FR + 'rtu_framer.ModbusRtuFramer', FR + 'ascii_framer.ModbusAsciiFramer',
                                   FR + 'binary_framer.ModbusBinaryFramer', FR + 'tls_framer.ModbusTlsFramer')
QUAL = {'socket': SOCKET, 'rtu': RTU, 'ascii': ASCII, 'binary': BINARY, 'tls': TLS}


class Rec:
    def __init__(self):
        self.decoded = []      # (pdu bytes handed to the decoder, buffer at that moment, header at that moment, message)
        self.delivered = []    # (message, pdu bytes, buffer, header)


def decoder(E, rec, frm, outcomes=('message',), size_of=None, empty='raises', per_call=False):
    """stub decoder: decode(pdu) records its argument together with the framer's buffer/header and yields a fresh message
    (or None / an exception, by case split); lookupPduClass(fc) yields a class whose calculateRtuFrameSize is size_of"""
    def decode(data):
        k = E.choice('decoder_outcome%s' % (len(rec.decoded) + rec.__dict__.get('nones', 0) if per_call else ''), list(outcomes)) if len(outcomes) > 1 else outcomes[0]
        if k == 'none':
            rec.__dict__['nones'] = rec.__dict__.get('nones', 0) + 1
            return None
        if k == 'raises':
            raise E.Raised('struct.error')
        if L.length(data) == 0:
            if empty == 'none':
                return None                   # ClientDecoder.decode catches everything (C13/decoder): an empty PDU yields None
            raise E.Raised('IndexError')      # every real decoder reads data[0] first: an empty PDU never yields a message
        fc = L.at(data, 0) if E.mode != 'symbolic' or True else None
        msg = E.obj('pymodbus.pdu.ModbusResponse', transaction_id=0, protocol_id=0, unit_id=0, skip_encode=False, check=0, function_code=fc)
        f = frm[0]
        rec.decoded.append((data, E.get(f, '_buffer'), dict(E.get(f, '_header')), msg))
        return msg

    def lookup(fc):
        def size(buf):
            return size_of(fc, buf)
        return E.stub('pdu_class', {'calculateRtuFrameSize': size})
    return E.stub('decoder', {'decode': decode, 'lookupPduClass': lookup})


def callback(E, rec, on_deliver=None):
    def deliver(*a):
        if E.mode == 'symbolic':
            return on_deliver(*a)
        try:
            return on_deliver(*a)
        except Exception as e:
            # the clauses of the unit run inside the real code's callback: an error while evaluating them on this run must not be
            # taken for an exception of the code under test (E.attempt would swallow it and the run would pass vacuously)
            if type(e).__name__ in ('Vacuous', 'ConcRaised'):
                raise
            E.prove('lemma:clauses-evaluable-at-delivery[%s]' % type(e).__name__, False)

    def cb(msg):
        for d in rec.decoded:
            if d[3] is msg:
                rec.delivered.append((msg,) + d[:3])
                if on_deliver:
                    deliver(msg, *d[:3])
                return
        rec.delivered.append((msg, None, None, None))
        if on_deliver:
            deliver(msg, None, None, None)
    return cb


HEADER_KEYS = {'socket': ('tid', 'pid', 'len', 'uid'), 'rtu': ('uid', 'len', 'crc'), 'ascii': ('lrc', 'len', 'uid'), 'binary': ('crc', 'len', 'uid'), 'tls': ()}


def arbitrary_framer(E, kind, rec, outcomes=('message',), size_of=None, header='any', empty='raises'):
    """a framer of the given kind whose buffer is an arbitrary byte string and whose header holds arbitrary values"""
    frm = [None]
    dec = decoder(E, rec, frm, outcomes, size_of, empty)
    f = E.new(QUAL[kind], dec)
    E.set(f, '_buffer', E.bytes('buffer', 0, 600))
    if kind != 'tls':
        if kind == 'rtu' and header == 'any':
            shape = E.choice('header_shape', ['empty', 'full', 'no-len'])
            hdr = {} if shape == 'empty' else {'uid': E.int('h_uid', 0, 256), 'len': E.int('h_len', -10, 70000), 'crc': b'\x00\x00'}
            if shape == 'no-len':
                hdr = {'uid': hdr['uid']}
        elif header == 'reset':
            hdr = dict(E.get(f, '_header'))
        else:
            hdr = {k: E.int('h_' + k, 0, 70000) for k in HEADER_KEYS[kind]}
        E.set(f, '_header', hdr)
    frm[0] = f
    return f


def fresh_framer(E, kind, rec, outcomes=('message',), size_of=None):
    frm = [None]
    f = E.new(QUAL[kind], decoder(E, rec, frm, outcomes, size_of))
    frm[0] = f
    return f


def loop_anns(kind, havoc=None):
    """processIncomingPacket loops are cut at the trivial invariant: every iteration starts from an arbitrary buffer/header"""
    q = QUAL[kind] + '.processIncomingPacket'
    ann = LoopAnn('frames', lambda v, j: True)
    ann.havoc = havoc
    return {(q, 0): ann}


# --------------------------------------------------------------------------- concrete frames for the executable twins
def _crc16(bs):
    crc = 0xFFFF
    for b in bs:
        crc ^= b
        for _ in range(8):
            crc = (crc >> 1) ^ 0xA001 if crc & 1 else crc >> 1
    return crc


def concrete_frame(kind, uid, pdu, tid=0):
    """the wire frame of (uid, pdu) in one framing, computed here from the specification (not with the framer under test)"""
    body = [uid] + list(pdu)
    if kind == 'socket':
        return [tid >> 8, tid & 255, 0, 0, (len(pdu) + 1) >> 8, (len(pdu) + 1) & 255] + body
    if kind == 'rtu':
        c = _crc16(body)
        return body + [c & 255, c >> 8]
    if kind == 'ascii':
        return list((':' + ''.join('%02X' % b for b in body + [(-sum(body)) % 256]) + '\r\n').encode())
    c = _crc16(body)
    return [0x7B] + body + [c & 255, c >> 8] + [0x7D]


def gate_twin(kind):
    """buffers made of one to three frames, each valid or damaged (a flipped byte, a cut, an inserted byte): the cases a gate must tell apart"""
    def make(g):
        r = g.r
        n = r.choice([1, 2, 2, 3])
        plen = r.choice([1, 2, 4, 5, 9])
        buf = []
        uid = r.randrange(0, 248)
        for k in range(n):
            pdu = [r.randrange(1, 100)] + [r.randrange(256) for _ in range(plen - 1)]
            if kind == 'binary':
                pdu = [b if b not in (0x7B, 0x7D) else 0x11 for b in pdu]
            fr = concrete_frame(kind, uid if uid not in (0x7B, 0x7D) else 1, pdu, r.randrange(65536))
            what = r.choice(['ok', 'ok', 'flip', 'flip', 'cut', 'insert'] + (['space', 'space'] if kind == 'ascii' else []))
            if what == 'space':
                # white space between two hex pairs of the text (lenient hex decoders skip it; the checksum of the decoded bytes still matches)
                at = 1 + 2 * r.randrange((len(fr) - 3) // 2)
                fr[at:at] = [r.choice([0x20, 0x09, 0x0A, 0x0B, 0x0C])] * r.choice([1, 2])
            elif what == 'flip':
                i = r.randrange(len(fr))
                fr[i] ^= 1 << r.randrange(8)
            elif what == 'cut':
                del fr[r.randrange(len(fr))]
            elif what == 'insert':
                fr.insert(r.randrange(len(fr) + 1), r.randrange(256))
            buf += fr
        out = {'buffer': {'items': buf}, 'unit0': uid, 'single': r.random() < 0.3}
        if kind == 'rtu':
            out['oracle_size'] = plen + 3
            out['header_shape'] = 0
            if r.random() < 0.35:
                # a freshly constructed framer (header {'uid': 0, 'len': 0, 'crc': ...}) whose first read is a frame cut short at a point where
                # the bytes so far check out by themselves: the last CRC byte is 0x00 and is the one missing
                n2 = max(plen, 3)
                for _ in range(20000):
                    body = [uid] + [r.randrange(1, 100)] + [r.randrange(256) for _ in range(n2 - 1)]
                    c = _crc16(body)
                    if c >> 8 == 0:
                        out['buffer'] = {'items': body + [c & 255]}
                        out['header_shape'], out['h_uid'], out['h_len'], out['oracle_size'] = 1, 0, 0, n2 + 3
                        break
        return out
    return make
