"""S-ADU: application data units of the five framings, written from MODBUS Messaging on TCP/IP v1.0b
(MBAP header), MODBUS over Serial Line v1.02 (RTU, ASCII), the MODBUS/TCP Security spec (TLS: bare PDU)
and the jamod binary framing quoted in ModbusBinaryFramer's docstring."""
from pyvc import lang as L
from . import pdu as P
from . import checks as CK


def mbap(tid, pid, uid, fc, data):
    """tid, pid, length = |PDU| + 1 (the unit id counts), uid, then the PDU (fc + data)"""
    return L.concat(P.be16(tid), P.be16(pid), P.be16(L.length(data) + 2), [uid, fc], data)


def tls(fc, data):
    return L.concat([fc], data)


def rtu(E, uid, fc, data):
    body = L.concat([uid, fc], data)
    return L.concat(body, CK.crc_bytes(E, body))


def ascii_(E, uid, fc, data):
    body = L.concat([uid, fc], data)
    return L.concat([0x3A], CK.hex_upper(L.concat(body, [CK.lrc(E, body)])), [0x0D, 0x0A])


def binary_plain(E, uid, fc, data):
    """'{' uid fc data crc '}' for a payload that contains no delimiter byte (no doubling needed)"""
    body = L.concat([uid, fc], data)
    return L.concat([0x7B], body, CK.crc_bytes_be(E, body), [0x7D])
