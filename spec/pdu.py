"""S-PDU: layout primitives of the MODBUS Application Protocol v1.1b3, written from the
specification (section 4.2 data encoding: big-endian 16-bit fields; section 6.1: coils LSB-first
within a byte, zero padded to a byte boundary).  Pure functions over the contract language:
each runs concretely (replay / twins) and symbolically (engine)."""
from pyvc import lang as L


def hi8(v):
    return v // 256


def lo8(v):
    return v % 256


def be16(v):
    """big-endian bytes of a 16-bit value"""
    return [v // 256, v % 256]


def u16_at(data, i):
    """the big-endian 16-bit value at offset i of data"""
    return L.at(data, i) * 256 + L.at(data, i + 1)


def pow2_small(b):
    """2**b for 0 <= b <= 7 (ite chain when b is symbolic)"""
    if isinstance(b, int):
        return 2 ** b
    r = 128
    for k in range(6, -1, -1):
        r = L.ite(b == k, 2 ** k, r)
    return r


def bit_of(v, b):
    """bit b (0 = least significant, 0 <= b <= 7) of the byte v as 0/1"""
    if isinstance(b, int):
        return (v // 2 ** b) % 2
    r = (v // 128) % 2
    for k in range(6, -1, -1):          # constant divisors only: stays linear for the solver
        r = L.ite(b == k, (v // 2 ** k) % 2, r)
    return r


def unpacked_bits(data):
    """LSB-first expansion of a byte string into 8*len booleans"""
    return L.seq(8 * L.length(data), lambda k: bit_of(L.at(data, k // 8), k % 8) == 1, elem='bool')


def packed_byte(bits, m):
    """byte m of the LSB-first packing of a boolean list, zero padded"""
    n = L.length(bits)
    acc = 0
    for b in range(8):
        acc = acc + L.ite(L.And(8 * m + b < n, L.truth(L.at(bits, 8 * m + b))), 2 ** b, 0)
    return acc


def packed_bits(bits):
    return L.seq((L.length(bits) + 7) // 8, lambda m: packed_byte(bits, m), kind='bytes', elem='int')


def regs_bytes(regs):
    """n registers as 2n big-endian bytes"""
    return L.seq(2 * L.length(regs), lambda k: L.ite(k % 2 == 0, L.at(regs, k // 2) // 256, L.at(regs, k // 2) % 256), kind='bytes', elem='int')


def regs_at(data, off, n):
    """n big-endian registers read from data starting at byte offset off"""
    return L.seq(n, lambda k: u16_at(data, off + 2 * k), elem='int')
