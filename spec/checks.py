"""S-CRC / S-LRC: the Modbus serial-line checksums written from the specification
(MODBUS over Serial Line v1.02, section 6.2.2 and appendix B): CRC-16 with initial value 0xFFFF,
reflected polynomial 0xA001, processed bit by bit LSB first, no final xor, transmitted low byte first;
LRC = two's complement of the 8-bit sum of the message bytes.  Independent of utilities.computeCRC's table."""
from pyvc import lang as L


def crc16_step(crc, byte):
    x = crc ^ byte
    for _ in range(8):
        x = L.ite(x % 2 == 1, (x // 2) ^ 0xA001, x // 2)
    return x


def crc16(E, data):
    """CRC-16/MODBUS register value after processing data"""
    return E.fold('crc16', data, 0xFFFF, crc16_step, 0, 65536)


def crc_bytes(E, data):
    """the two CRC bytes as transmitted: low byte first"""
    c = crc16(E, data)
    return [c % 256, c // 256]


def lrc(E, data):
    s = E.fold('psum', data, 0, lambda acc, b: acc + b, additive=True)
    return (256 - s % 256) % 256


HEXU = b'0123456789ABCDEF'


def hex_digit_upper(v):
    """ASCII code of the upper-case hex digit for 0 <= v < 16"""
    return L.ite(v < 10, v + 48, v + 55)


def hex_upper(data):
    """upper-case hex text of a byte sequence: 2 characters per byte, high nibble first"""
    return L.seq(2 * L.length(data), lambda k: hex_digit_upper(L.ite(k % 2 == 0, L.at(data, k // 2) // 16, L.at(data, k // 2) % 16)), kind='bytes', elem='int')


def crc_bytes_be(E, data):
    """binary framing as built by the jamod-style framer: the CRC register byte-swapped and packed big-endian,
    i.e. the same low-byte-first order as RTU"""
    return crc_bytes(E, data)


def hexval(c):
    """value of an ASCII hex digit character code (either case), -1 for any other character"""
    return L.hexval(c)


def unhex(text):
    """bytes denoted by a hex text of even length"""
    return L.seq(L.length(text) // 2, lambda k: hexval(L.at(text, 2 * k)) * 16 + hexval(L.at(text, 2 * k + 1)), kind='bytes', elem='int')


def all_hex(text):
    return L.forall(0, L.length(text), lambda k: hexval(L.at(text, k)) >= 0)
