"""S-PAGE: Read Device Identification paging (MODBUS AP v1.1b3 section 6.21): a response carries the objects in
ascending id order; an object is (id, length, value); the response PDU (function code + MEI type, read code,
conformity, more follows, next object id, number of objects + objects) must not exceed 253 bytes; when the objects
do not all fit, more-follows = 0xFF and next-object-id names the first object that was not sent."""
from pyvc import lang as L

MAX_PDU = 253
HEADER = 7          # function code + 6 fixed bytes of the 43/14 response


def obj_size(v):
    return 2 + L.length(v)


def fits(sizes, k):
    """the first k objects fit a response PDU"""
    return HEADER + sum(sizes[:k]) <= MAX_PDU


def objects_bytes(ids, vals, k):
    out = []
    for i in range(k):
        out = L.concat(out, [ids[i], L.length(vals[i])], vals[i])
    return out
