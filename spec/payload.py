"""S-PAYLOAD: the conventional register image of a typed value (property C19 statement):
big byte order with big word order is network order; little word order reverses the 16-bit words of a
multi-register value; little byte order swaps the two bytes inside each word."""
from pyvc import lang as L


def be_bytes(u, width):
    """network-order bytes of the unsigned value u of `width` bytes"""
    return [(u // (256 ** (width - 1 - k))) % 256 for k in range(width)]


def unsigned(v, width, signed):
    """two's complement image of a (possibly signed) integer"""
    return L.ite(v < 0, v + 256 ** width, v) if signed else v


def image(be, byteorder, wordorder):
    """register image of the network-order bytes `be` (even length) under the given orders ('>' big, '<' little)"""
    words = [be[i:i + 2] for i in range(0, len(be), 2)]
    if wordorder == '<':
        words = list(reversed(words))
    out = []
    for w in words:
        out += (list(reversed(w)) if byteorder == '<' else list(w))
    return out


def single(be, byteorder):
    """8/16-bit values: packed directly with the byte order"""
    return list(reversed(be)) if byteorder == '<' else list(be)
