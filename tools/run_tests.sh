#!/bin/sh
# runs the pinned test suite of /repo and compares the set of passing tests with the stable_pass list of /root/.vp/BASELINE.json
cd /repo && /venv/bin/python -m pytest -ra -q -p no:cacheprovider --timeout=900 --continue-on-collection-errors --junitxml=/var/tmp/verif-tests.junit.xml > /var/tmp/verif-tests.out 2>&1
tail -1 /var/tmp/verif-tests.out
/venv/bin/python - <<'PY'
import json, xml.etree.ElementTree as ET
base = set(json.load(open('/root/.vp/BASELINE.json'))['stable_pass'])
got = set()
for tc in ET.parse('/var/tmp/verif-tests.junit.xml').getroot().iter('testcase'):
    if not any(ch.tag in ('failure', 'error', 'skipped') for ch in tc):
        got.add('%s::%s' % (tc.get('classname'), tc.get('name')))
print('stable_pass %d, passing now %d, missing from passing: %s' % (len(base), len(got), sorted(base - got)[:10]))
PY
rm -f /var/tmp/verif-tests.junit.xml
