#!/bin/sh
# usage: try_benign.sh <name> <patch>...   - behaviour-preserving edits: apply the patches to a scratch copy of /repo/pymodbus and run every quick check; nothing may be reported
n="$1"; shift
D=$(mktemp -d /var/tmp/benign.XXXXXX)
cp -r /repo/pymodbus "$D/" || exit 1
for f in "$@"; do patch -p1 -s -d "$D" -i "$f" || { echo "$n: patch $f failed"; rm -rf "$D"; exit 1; }; done
for p in $(python3 -c "import json;print(' '.join(c['property_id'] for c in json.load(open('/verif/MANIFEST.json'))['checks']))"); do
  cd /verif && PYVC_REPO="$D" PYVC_OUT="$D/out" timeout 2400 ./check $p --tier quick > "$D/$p.out" 2>&1; e=$?
  if [ $e -ne 0 ] || grep -q '^VIOLATION\|^UNDECIDED\|^CHECKER-ERROR' "$D/$p.out"; then
    echo "$n $p exit=$e"; grep '^VIOLATION\|^UNDECIDED\|^CHECKER-ERROR' "$D/$p.out" | head -4 | cut -c1-240
  fi
done
echo "$n done"
rm -rf "$D"
