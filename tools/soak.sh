#!/bin/sh
# usage: tools/soak.sh <seed>...   - every quick check with each seed; prints only runs that need attention (non-zero exit, VIOLATION, UNDECIDED, CHECKER-ERROR)
cd "$(dirname "$0")/.." || exit 1
for s in "$@"; do
  for p in $(python3 -c "import json;print(' '.join(c['property_id'] for c in json.load(open('MANIFEST.json'))['checks']))"); do
    PYVC_OUT=/var/tmp/soak-out VERIF_SEED=$s timeout 3600 ./check $p --tier quick > /var/tmp/soak.$p.$s.out 2>&1; rc=$?
    n=$(grep -c '^VIOLATION\|^UNDECIDED\|^CHECKER-ERROR' /var/tmp/soak.$p.$s.out)
    if [ $rc -ne 0 ] || [ $n -ne 0 ]; then echo "ATTENTION seed=$s $p exit=$rc lines=$n"; grep '^VIOLATION\|^UNDECIDED\|^CHECKER-ERROR' /var/tmp/soak.$p.$s.out | head -5 | cut -c1-250; fi
  done
  echo "seed $s done"
done
rm -rf /var/tmp/soak-out
