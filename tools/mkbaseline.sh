#!/bin/sh
# regenerate baseline-obligations.txt: the obligations discharged on the unchanged tree (run only on a clean /repo)
cd "$(dirname "$0")/.." || exit 1
test -z "$(git -C /repo status --porcelain)" || { echo "/repo has uncommitted changes"; exit 1; }
: > baseline-obligations.txt.new
for p in $(python3 -c "import json;print(' '.join(c['property_id'] for c in json.load(open('MANIFEST.json'))['checks']))"); do
  ./check $p --list-discharged | grep '^BASELINE ' | sed 's/^BASELINE //' >> baseline-obligations.txt.new
done
( echo "# obligations discharged on the unchanged tree ($(git -C /repo rev-parse --short HEAD)); committed, never written at run time"; sort -u baseline-obligations.txt.new ) > baseline-obligations.txt
rm baseline-obligations.txt.new
wc -l baseline-obligations.txt
