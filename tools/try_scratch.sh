#!/bin/sh
# usage: try_scratch.sh <seeded dir name> <property id>...  - like try_seeded.sh but on a scratch copy of /repo/pymodbus (PYVC_REPO), /repo itself is not touched
S="/verif/seeded/$1"; n="$1"; shift
D=$(mktemp -d /var/tmp/scratch.XXXXXX)
cp -r /repo/pymodbus "$D/" && patch -p1 -s -d "$D" -i "$S/patch.diff" || { echo "patch failed"; rm -rf "$D"; exit 1; }
for p in "$@"; do
  cd /verif && PYVC_REPO="$D" PYVC_OUT="$D/out" timeout 2400 ./check $p --tier quick > "$D/$p.out" 2>&1; echo "$n $p exit=$? $(grep -c '^VIOLATION' $D/$p.out) violation lines"
  grep '^VIOLATION' "$D/$p.out" | head -3 | cut -c1-220
  grep '^CHECKER-ERROR\|^UNDECIDED' "$D/$p.out" | head -3 | cut -c1-200
done
rm -rf "$D"
