#!/bin/sh
# usage: tools/mut.sh <file relative to pymodbus/> '<sed expr>' <check args...>
# applies one edit to a scratch copy of /repo (outside /repo and /verif), runs the check against it, removes the copy
set -e
D=$(mktemp -d /var/tmp/mut.XXXXXX)
trap 'rm -rf "$D"' EXIT
cp -r /repo/pymodbus "$D/"
f="$1"; e="$2"; shift 2
sed -i "$e" "$D/pymodbus/$f"
if diff -q "/repo/pymodbus/$f" "$D/pymodbus/$f" >/dev/null; then echo "MUTATION DID NOT APPLY"; exit 9; fi
diff "/repo/pymodbus/$f" "$D/pymodbus/$f" | head -6 || true
cd /verif
PYVC_REPO="$D" PYVC_MUT=1 ./check "$@" || echo "exit=$?"
