#!/usr/bin/env python3
"""print /repo sources without docstrings (reading aid only)"""
import ast,sys
def strip(path):
    src=open(path).read()
    t=ast.parse(src)
    for n in ast.walk(t):
        if isinstance(n,(ast.FunctionDef,ast.AsyncFunctionDef,ast.ClassDef,ast.Module)) and n.body and isinstance(n.body[0],ast.Expr) and isinstance(n.body[0].value,ast.Constant) and isinstance(n.body[0].value.value,str):
            n.body=n.body[1:] or [ast.Pass()]
    print('#'*20,path); print(ast.unparse(t))
for p in sys.argv[1:]:
    strip('/repo/pymodbus/'+p)
