#!/usr/bin/env python3
"""regenerate MANIFEST.json from the table below (keeps the manifest valid at every commit)"""
import json, os
HERE = os.path.dirname(os.path.dirname(os.path.abspath(__file__)))
BASE = json.load(open('/root/.vp/BASELINE.json'))['cmd']

CLAIMED = {
    # id: (category, text, note, technique, design_ref)
    'C18': ('proof', 'Every clause of the property is a postcondition over the abstract view (cells: address -> value) of the real '
            'ModbusSequentialDataBlock / ModbusSparseDataBlock / context methods; VCs are generated from the method bodies in /repo and discharged '
            'by z3 for all addresses, counts, block extents and contents (no bound). History quantifier closed by induction: each operation '
            'preserves the view relation. The real ModbusSlaveContext constructor gives every omitted table a block of its own (two contexts, any subset of tables supplied: a write shows nowhere else).', 'A1-A10 of DESIGN 2.2; library models (len, slicing, set/range/issubset, dict); z3/cvc5; pyvc translator. '
            'Executable twin runs are bounded and never counted as proved.', 'contract-based deductive verification (pyvc VC generation from /repo AST + z3/cvc5)', 'DESIGN.md section 4 C18'),
    'C04': ('proof', 'execute() of FC 1,2,3,4,5,6,15,16,22,23 is proved against the S-REG step function for all requests, all block extents/contents and both '
            'zero-mode settings: normal responses carry the prescribed values, a write changes exactly the addressed cells of the table selected by the spec '
            'FC->table map and nothing else (whole-store frame), mask-write uses (cur AND and) OR (or AND NOT and), FC 23 writes before it reads. Callees are '
            'replaced by contracts that are verified against their bodies. The history quantifier is closed by induction (per-request step lemma + map-model lemma). '
            'The real block and context constructors own their storage (no sharing with the caller, between tables or between contexts).',
            'Sequential blocks backing four distinct tables (sparse blocks at block level in C18); A1-A10; z3/cvc5; pyvc translator; S-REG transcription. '
            'Front-end dispatch to execute() is covered under C09/C12; FC 16 is also proved from the wire (decode contract verified against the real decode, plus an executable twin over constructed PDUs).', 'contract-based deductive verification (pyvc VC generation from /repo AST + z3/cvc5)', 'DESIGN.md section 4 C04'),
    'C05': ('proof', 'Lemmas over wire bytes (PDU -> ServerDecoder.decode -> execute) for every function code and reason: quantity outside limits -> 03, byte count '
            'contradicting quantity -> 03, FC5 value not 0000/FF00 -> 03, range outside table -> 02, unassigned function code -> 01, each with fc|0x80, and '
            'exception => all four tables unchanged, FC 23 writes only if both ranges are valid; contexts over sequential blocks and over sparse blocks (arbitrary key sets). Two known findings (FC5 value, FC15 truncated quantity) are '
            'proved on the complement of their regions and their witnesses replayed on every run.',
            'PDUs of the exact length their function code defines (other lengths: C12). Datastore-failure -> 04 is proved where the failure is caught: execute() of all seven front-ends, for a datastore failing with ValueError / KeyError / IndexError / IOError (C05/failure.*). '
            'A1-A10; z3/cvc5; pyvc translator.', 'contract-based deductive verification (pyvc VC generation from /repo AST + z3/cvc5)', 'DESIGN.md section 4 C05'),
    'C01': ('proof', 'For every message class of the S-PDU table (units/codecs.py; 34 data classes + 34 diagnostic classes + exception response): '
            'encode() of an instance holding any valid field values is byte for byte the PDU of MODBUS AP v1.1b3, and the server/client decoder turns any '
            'spec-conformant PDU into an instance of the right class carrying exactly the wire values (decoder tables included). Loops are cut at '
            'invariants; bit packing is proved against an LSB-first spec via a separately proved lemma. Five known findings are proved on the complement of their regions. The 43/14 response, whose encode decides what fits, is additionally proved against S-PAGE for object lists of any total size (1..4 objects).',
            'File-record codecs (FC 20/21) are BOUNDED units (0..3 record groups per message, decode loops unrolled; field values and data lengths symbolic) and never counted as proved; '
            'the 43/14 response codec likewise (0..3 objects; its paging is C20). '
            'S-PDU table is a transcription of the specification; A1-A10; struct/compat library models; z3/cvc5.',
            'contract-based deductive verification (pyvc VC generation from /repo AST + z3/cvc5)', 'DESIGN.md section 4 C01'),
    'C02': ('proof', 'Per class: Decoder.decode(fc + K(v).encode()) has view v (real encode composed with real decode, through the real decoder tables); '
            'encode() changes no attribute (hence encode twice / encode after decode give identical bytes); decode into an instance holding an earlier result '
            'equals decode into a fresh instance. For all field values and all list lengths.',
            'FC 20/21 (0..3 record groups) and the 43/14 response (0..3 objects): bounded units, never counted as proved. Five known findings. A1-A10; z3/cvc5.',
            'contract-based deductive verification (pyvc VC generation from /repo AST + z3/cvc5)', 'DESIGN.md section 4 C02'),
    'C13': ('proof', 'Decomposition of ModbusTransactionManager.execute along its call structure, each piece a lemma over the real code: the retry loop is cut at the '
            'invariant "frames written + retries left <= retries + 1" (variant: retries left), which gives at most 1 + retries transmissions and termination of the loop '
            'for every retries value and every transport behaviour; real _transact/_recv/_send under a transport that returns anything or raises write at most one frame, '
            'connect before they write, catch transport errors and silence (closing the connection) and let nothing else escape; what the serial framers hand to the client passed the unit filter (a frame for another unit is not delivered); real processIncomingPacket of each framer, from any state on any bytes, lets '
            'only ModbusIOException escape; ClientDecoder.decode lets nothing escape; given those, execute never raises, returns a message or an error object, leaves '
            'client.state == TRANSACTION_COMPLETE and no reply slot. Seven known findings (retry_on_empty alone never retries, retries=0 becomes 1, and per framing the '
            'exception classes that do escape on garbage, reply slot left behind). Retry options honoured, for every retries value: retrystep.<kind> cuts the retry loop at the exact invariant "attempts + retries left == retries + 1" and discharges that it goes round only after a non-valid reply, is left only on a reply that is not (empty, retry_on_empty) / (foreign, retry_on_invalid), and hands the reply it was left on to the framer. Recovery after fault scripts: bounded units (see note).',
            'Blocking inside recv/sleep is the transport timeout (external). the composition of the retrystep clauses by induction over the attempts is a hand argument; retry.* lemmas (retry count 1..2, loop unrolled) remain as bounded cross-checks and recover.* are an executable '
            'bounded stand-in (fault scripts of up to 3 exchanges on the real client objects, real framers): neither is counted as proved. Transport and decoder abstracted as in C08. '
            'A1-A10; z3/cvc5.', 'contract-based deductive verification (pyvc VC generation from /repo AST + z3/cvc5)', 'DESIGN.md section 4 C13'),
    'C14': ('proof', 'Linear-arithmetic identities proved for all quantities: get_response_pdu_size() of FC 1-6, 15, 16, 23 and every FC 8 sub-function equals '
            '1 + len(encode()) of the normal response (for FC 8: the response its own execute() builds, run on the real device control block); '
            'base_adu_size + PDU size (doubled for ASCII) equals len(buildPacket()) for RTU, ASCII, binary, TLS and TCP for an arbitrary message; '
            '_calculate_exception_length() equals the real exception frame length. FC 22 (no prediction on this tree) has a conditional lemma, and any other request class that starts to expose a prediction makes the check UNDECIDED (size.classes-covered). Two known findings (GetClearModbusPlus prediction, binary delimiter doubling).',
            'An arbitrary message is abstracted by the assumed contract "encode() returns some bytes" (C02 purity). The length arithmetic inside '
            'The reader itself is proved too: from a transport holding exactly the reply frame (normal reply of the predicted length, or exception reply of the specified exception-ADU length) '
            '_recv requests exactly len(frame) bytes over all its reads and returns the frame (RTU, ASCII, binary, TCP). A1-A10; z3/cvc5.',
            'contract-based deductive verification (pyvc VC generation from /repo AST + z3/cvc5)', 'DESIGN.md section 4 C14'),
    'C19': ('proof', 'For each of the 13 value kinds (8/16/32/64-bit signed and unsigned, 16/32/64-bit floats, bit group, string) and each of the four '
            'byte-order x word-order combinations: add_X appends exactly the conventional register image (S-PAYLOAD), a decoder whose cursor stands at '
            'that image inside arbitrary surrounding bytes returns the value and advances by its width (the sequence statement follows by induction on '
            'the value list), to_registers is the big-endian 16-bit reading with zero pad, fromRegisters restores the payload. All values, no bound.',
            'IEEE-754 conversion of struct e/f/d is an uninterpreted injection with unpack(pack(v)) == v; struct byte-slice rewrite rules '
            '(pack(unpack(bytes)) == bytes, recomposition of consecutive slices) are part of the trusted struct model. str arguments of add_string (UTF-8 image) are a BOUNDED stand-in over a fixed list of texts, never counted as proved. A1-A10; z3/cvc5.',
            'contract-based deductive verification (pyvc VC generation from /repo AST + z3/cvc5)', 'DESIGN.md section 4 C19'),
    'C08': ('proof', 'Pairing logic of the real ModbusTransactionManager.execute for all four client framings (plus the UDP-style client): from any prior state '
            '(stale bytes in the framer, client state, transaction-id counter including the wrap, a reply slot left over from an earlier call) and a havoc-ed '
            'transport, the returned object is a ModbusIOException or a message the framer delivered during this call, handed over with an empty framer buffer, '
            'carrying the request transaction id (TCP) / unit id (serial) and function code; an attempt that ends in silence closes the connection (a late reply cannot reach the next transaction). Every synchronous client constructor (base, TCP, TCP with a framer class, UDP, serial x framing) installs a DictTransactionManager bound to the client; the real ClientDecoder is history-free for every response class (the same bytes decoded twice give the same fields and leave the first message alone). The retry loop is cut (any number of retries); _transact and the '
            'framer are replaced by contracts that are themselves established on the real code by C08/transact.<kind> (frame conditions of _transact) and '
            'C08/filter.<kind> (every delivered message carries the wire unit id, passed the unit filter, and on TCP the wire transaction id; receive loops cut). '
            'Five known findings (reply transaction id never compared, function code never compared, unit 0/255 accepts any unit, socket error path, left-over reply slot).',
            'Transport abstracted (recv(n) returns any bytes of length <= n, may raise). Decoder abstracted (a non-empty PDU yields a message whose function code is its '
            'first byte; which PDUs decode is C01/C02). Number of deliveries per processIncomingPacket call split 0/1/2/1-then-raise at the call site (the client callback '
            'stores under one key). A1-A10; z3/cvc5.', 'contract-based deductive verification (pyvc VC generation from /repo AST + z3/cvc5)', 'DESIGN.md section 4 C08'),
    'C09': ('proof', 'Each of the seven execute/send pairs (sync TCP/serial/UDP, asyncio TCP/UDP, Twisted TCP/UDP) is proved against S-SERVE for an arbitrary '
            'request (ids, function code, outcome of request.execute: normal / exception / raises), arbitrary hosted-unit sets, single/multi mode, '
            'broadcast and ignore_missing_slaves flags: exactly one frame per accepted request, byte-identical to MBAP(tid, uid, fc or fc|0x80, payload) with '
            'the ids echoed; nothing for broadcast, absent-unit-with-ignore, no-response messages; 0x0B for absent units; 04 for datastore failures. A well-formed request frame of any body length (none included) alone on the wire reaches execute() exactly once, for all four framers (C09/accepted.*). Which responses are listen-only is decided on the real classes: Force Listen Only Mode yields a response that asks for silence, every other response class asks to be sent (C09/listen_only); the response the real execute() of a read request returns can always be encoded and fits a PDU (C09/encodable.*).',
            'Per-connection ordering ("in request order") rests on the framer calling the callback once per frame in order (C06) - assumed here. '
            'socket.send/transport.write atomic (external). Broadcast lemmas unroll the loop over hosted units (0..3 units, symbolic ids). One known finding (Twisted UDP ignores should_respond).',
            'contract-based deductive verification (pyvc VC generation from /repo AST + z3/cvc5)', 'DESIGN.md section 4 C09'),
    'C10': ('proof', 'Routing clauses of S-SERVE for all seven front-ends over arbitrary hosted-unit sets (symbolic map): executed exactly once and only against '
            'context[unit_id]; absent unit: nothing executed, silence or 0x0B; single mode: every id reaches the one context; broadcast: executed once on every '
            'hosted unit, no response (hosted sets of 0..3 units, ids symbolic - bounded in the NUMBER of units); the unit filter _validate_unit_id against '
            'its specification; every serving loop hands the framer all hosted units (+0 under broadcast); default-constructed slave contexts share no storage (real constructor); every server constructor serves the context object it was given, an empty one included (ownership obligation on the constructors); every serving loop and Twisted entry point hands the framer nothing but the hosted units (+0 under broadcast).',
            'Non-interference between units rests on execute() receiving only the addressed context object (proved) and contexts of distinct units being '
            'distinct objects (configuration assumption). One known finding (sync UDP handler never admits unit 0 for broadcast).',
            'contract-based deductive verification (pyvc VC generation from /repo AST + z3/cvc5)', 'DESIGN.md section 4 C10'),
    'C12': ('proof', 'Safety obligations on every path: (a) one arbitrary iteration of each serving loop (3 sync handlers, 2 asyncio handlers; loop cut at the '
            'invariant, so all iterations) with the transport returning any bytes or raising and the framer raising ANY exception: no exception escapes, and '
            'after an exception the connection is closed or the framer reset; (b) execute() of all seven front-ends lets no exception escape and maps a '
            'datastore failure to exception 04; (c) Twisted entry points raise only what the framer raised; (e) for every write function code (5, 6, 15, 16, 22, 23) and ANY byte string after it: unless the body has exactly the length '
            'its own count / byte-count fields prescribe (and those agree), decode + execute leaves all four tables unchanged (two known findings: trailing bytes ignored, FC 15 truncation); (f) the one request decoder with a while loop (FC 21) terminates on every byte string (loop variant); (g) whatever the body, a request answered with an exception response (or failing with an exception) has changed nothing; (h) a segment of at most 7 bytes at a Modbus/TCP receiver (real decoder, real execute) changes no cell.',
            'Reactor / event-loop behaviour around the proved callbacks is external (Twisted drops the connection on an exception leaving dataReceived). '
            'That a rejected PDU never reaches the store follows from execute being the framer callback, called only after decode returned a message (C07 gate units).',
            'contract-based deductive verification (pyvc VC generation from /repo AST + z3/cvc5)', 'DESIGN.md section 4 C12'),
    'C15': ('other', 'Lock-ownership obligations decided on the AST/call graph of the current sources (pyvc/ownership.py): the lock is created once per manager; '
            'the whole transaction (tid allocation, send, receive, decode, reply pick-up) is one with-lock region; guarded methods are called only inside it; '
            'no second lock / wait inside; the client entry does nothing outside the lock (known finding: connect()). With RLock mutual exclusion every '
            'schedule is equivalent to a serial order of whole transactions. SCHEDULES ARE NOT EXPLORED - that quantifier is outside contract-based verification.',
            'threading.RLock semantics assumed; syntactic/call-graph analysis (name-based for method calls). A directed two-thread schedule confirms the known finding on the real code.',
            'ownership / lock-invariant obligations (deductive, AST + call graph), part of the contract-based family', 'DESIGN.md section 4 C15'),
    'C17': ('proof', 'Relational: all seven front-ends are proved against the same S-SERVE contract (same frames, same executions for the same inputs), stream '
            'front-ends build a fresh framer per connection (proved on the real setup/connection_made/connectionMade), request execution has no suspension '
            'point on the event-loop front-ends (ownership); threaded connections block without a receive timeout (a pause inside a frame is not an event on any front-end); two framers built by the real constructors share no state (what one receives, checks, advances over or resets leaves the buffer and header of the other alone); every front-end hands its framer the same acceptance list (the hosted units). Interleavings of several connections are NOT explored (not applicable to this family).',
            'Three known findings: Twisted UDP should_respond; threaded server executes requests without a lock (directed two-thread lost-update witness); '
            'datagram front-ends share one framer between peers.', 'contract-based deductive verification + ownership obligations', 'DESIGN.md section 4 C17'),
    'C20': ('proof', 'DeviceInformationFactory.get returns exactly the non-empty objects of the category from the requested id onward, ascending, with exact values '
            '(basic and regular categories: all 2^7 population patterns x all start ids - complete; extended: population patterns over objects 0,2,6,0x80,0x81,0xFF, private objects registered in ascending, descending and rotated order); '
            'ReadDeviceInformationResponse.encode emits exactly the longest prefix that keeps the PDU <= 253 bytes with the S-PAGE more-follows / next-object-id '
            '(0..7 objects, symbolic ascending ids, values of any length 1..245, byte-exact); the identity table is what update() last said (a blank withdraws an object); one chain step makes progress and points at the first unsent object, '
            'so by induction the chain terminates and delivers every object once. One known finding (245-byte value never fits).',
            'Extended category bounded in the NUMBER of populated extended objects (3). Client-side decode of the response is covered by the bounded C01/C02 stand-in. '
            'S-PAGE transcription; A1-A10; z3/cvc5.', 'contract-based deductive verification (pyvc VC generation from /repo AST + z3/cvc5)', 'DESIGN.md section 4 C20'),
    'C16': ('proof', 'Contracts on the Twisted ModbusClientProtocol operations over the ghost map pending: tid -> deferred, each proved from an arbitrary pending map '
            '(0..3 other outstanding requests, symbolic pairwise-distinct ids, arbitrary tid counter): execute allocates (tid+1) mod 65536, writes the frame carrying '
            'it, files the returned deferred under it and touches nothing else; _handleResponse fires exactly pending[reply tid] once and removes it, an unknown id '
            'fires nothing and leaves the framer (frames still buffered from the same segment) untouched; connectionLost fails every pending deferred once with a connection error and later requests fail at once; FIFO variant pairs in arrival order; the real constructor picks matching by transaction id exactly when the framer (given as class, instance or left out) is the MBAP one; connectionLost is proved for the arrival-order (serial) manager too; execute renumbers a request whatever id it already carries.',
            'Bounded in the NUMBER of other outstanding requests (<= 3; the untouched entries are symmetric). twisted Deferred / defer.fail / Failure are external '
            '(ghost firing log). One known finding (tid reuse after wrap while still pending).', 'contract-based deductive verification (pyvc VC generation from /repo AST + z3/cvc5)', 'DESIGN.md section 4 C16'),
    'C07': ('proof', 'Gate obligation per framer from an ARBITRARY framer state (any buffer, any header; the first loop iteration from an arbitrary state is the '
            'arbitrary iteration): whenever the callback receives a message, it is the one the decoder made from exactly the PDU bytes of a frame in the buffer '
            'whose integrity check holds (every receive loop CUT at the trivial invariant, so every iteration of every call history; a first-iteration companion unit, labelled bounded, supplies replayable counter-models) - RTU/binary: bit-level CRC-16 of unit+PDU equals the following two bytes (low byte first); ASCII: colon/CRLF envelope, '
            'every unit/PDU character a hex digit, LRC of the decoded bytes equals the LRC field; TCP: MBAP length >= 2 and exactly length-1 PDU bytes present. '
            'computeCRC/computeLRC are themselves proved equal to the bit-level specs. Two known findings (socket raw-buffer delivery, ASCII LRC field parsed by int()).',
            'Which corruptions CHANGE a CRC-16/LRC is a property of the specified checksum (not proved). RTU size oracle abstracted to any value >= 4. '
            'The stub decoder stands for both decoders (returns a message, None or raises). A1-A10; z3/cvc5.',
            'contract-based deductive verification (pyvc VC generation from /repo AST + z3/cvc5)', 'DESIGN.md section 4 C07'),
    'C03': ('proof', 'Build side, for an arbitrary message (any unit id, transaction id, protocol id, function code, payload bytes): buildPacket of the TCP, TLS, RTU and '
            'ASCII framers is byte for byte the S-ADU (MBAP with length = |PDU|+1; unit+PDU+CRC low byte first; colon + upper-case hex of unit, PDU, LRC + CR LF; bare PDU); '
            'computeCRC and computeLRC are proved equal to the bit-level CRC-16/MODBUS and LRC specifications (loop invariant over an uninterpreted fold, CRC table by '
            '256-way split). Receive side: whole-frame round trip through a fresh receiver proved for TCP, TLS and RTU (the receiver hands the decoder exactly the PDU); that the real ServerDecoder / ClientDecoder '
            'turn that PDU back into a message equal to the original is proved per message class (message.* lemmas); RTU length oracle proved per class.',
            'ASCII and binary round trips are a BOUNDED stand-in (executable twin, seeded inputs) - the delimiter search over hex text / escaped payload is not '
            'discharged within budget. Binary buildPacket is covered by its length contract only. An arbitrary message is abstracted by "encode() returns some bytes". '
            'Six known findings (binary delimiter bytes; diagnostic RTU frame size constant; four message classes that do not survive their own encode/decode).', 'contract-based deductive verification (pyvc) + bounded twin for two framers', 'DESIGN.md section 4 C03'),
    'C06': ('proof', 'Per-call contracts over ARBITRARY valid frames (given relationally by the S-ADU validity conditions) and an arbitrary remainder: `step` - at a '
            'frame boundary with buffer+chunk = V ++ R the first loop iteration delivers exactly the message of V (PDU bytes, unit id) and leaves buffer = R with a '
            'clean header (induction step of delivered = Frames(received) for any number of frames per read); `partial`/`resume` - a frame arriving in 2 or 3 reads '
            'with SYMBOLIC cut positions: no exception, nothing delivered, buffer = exactly the received prefix, and the completing read behaves as one read would. '
            'ASCII satisfies all of them (fully proved, every cut position); socket, RTU and binary are proved for whole frames per read and have known findings '
            'for partial reads (4 findings).', 'Three-or-more cuts follow by induction from the proved state equality after a partial read (buffer = prefix, clean header) - '
            'stated, not mechanised. Decoder abstracted (returns a message for any non-empty PDU); binary frames without delimiter bytes. A1-A10; z3/cvc5.',
            'contract-based deductive verification (pyvc VC generation from /repo AST + z3/cvc5)', 'DESIGN.md section 4 C06'),
    'C11': ('proof', 'Per-call obligations proved with all frame contents symbolic: a complete RTU/binary frame whose CRC does not match is discarded and leaves the '
            'receiver at a frame boundary (buffer empty, header reset); a valid frame for a foreign unit likewise (all three framers); noise without a start delimiter in '
            'front of a valid ASCII/binary frame is skipped and the frame behind it delivered by the same read; from the boundary state the next valid frame is delivered. '
            'Two known findings (ASCII keeps a failed frame forever; RTU sticky KeyError after a short read on a cleared header).',
            'The composed bounded-future statement (recovery within two maximum-size frames after arbitrary garbage, bounded backlog) is a BOUNDED stand-in: an executable '
            'twin over a garbage alphabet followed by valid frames one per read, never counted as proved. Decoder abstracted; binary frames without delimiter bytes.',
            'contract-based deductive verification (pyvc) for the per-call obligations + bounded twin for the composition', 'DESIGN.md section 4 C11'),
}
NOT_YET = 'check not built yet at this commit (planned: contract-based, see DESIGN.md section 4)'
ALL = ['C%02d' % i for i in range(1, 21)]

m = {
    'version': 1,
    'setup_cmd': "python3-vt -c 'import z3' && /venv/bin/python -c 'import pymodbus' && test -x /usr/bin/cvc5",
    'hooks': {'guard': 'RIPTIDEIO_PYMODBUS_VERIF', 'enable': 'unused: no instrumentation was added to /repo (contracts are sidecar files under /verif/units, the engine reads the sources); the variable is reserved and nothing in /repo tests it',
              'baseline_off_cmd': BASE.replace('--junitxml=<file>', '--junitxml=/var/tmp/pymodbus-baseline.junit.xml'), 'source_commits': [], 'add_only': True},
    'engines': [{'name': 'pyvc', 'path': 'pyvc/', 'serves_properties': sorted(CLAIMED),
                 'kind_free_text': 'AST->SMT verification-condition generator for the real /repo functions with sidecar contracts; z3 then cvc5; concrete replay and bounded twins under /venv/bin/python'}],
    'checks': [], 'not_applicable': [],
    'notes': 'Exit codes: 0 held, 1 VIOLATION (replayed input, or no-failing-input-found against baseline-obligations.txt), 2 undecided without twin, 3 checker malfunction (a clause proved by the engine that fails on the real code in the executable twin is a VIOLATION with that input, and the proof of that unit is withdrawn). Known findings: known-findings.txt (+ findings/). Seeded changes: seeded/ (120 property-breaking, 48 behaviour-preserving under seeded/benign). DESIGN.md section 10 describes the checks as built.',
}
for pid in ALL:
    if pid in CLAIMED:
        cat, text, note, tech, ref = CLAIMED[pid]
        m['checks'].append({'property_id': pid, 'quick_cmd': './check %s --tier quick' % pid, 'thorough_cmd': './check %s --tier thorough' % pid,
                            'evidence_file': 'evidence/%s.json' % pid, 'replay_cmd_template': './check %s --replay {path}' % pid, 'engine': 'pyvc',
                            'level_claimed': {'category': cat, 'text': text, 'design_ref': ref}, 'level_note': note, 'technique': tech})
    else:
        m['not_applicable'].append({'property_id': pid, 'reason': NOT_YET})
json.dump(m, open(os.path.join(HERE, 'MANIFEST.json'), 'w'), indent=1)
print('MANIFEST.json written:', len(m['checks']), 'checks')
