#!/bin/sh
# usage: process_mutant.sh <prop> <suffix>   - confirm the change left in /tmp/wt/<prop><suffix>, store it as seeded/<prop>-<suffix>, run the property's check against it
p=$1; x=$2
/verif/tools/confirm_mutant.sh /tmp/wt/$p$x /verif/seeded/$p-$x | tail -1
/verif/tools/try_scratch.sh $p-$x $p | head -4 | cut -c1-230
