#!/bin/sh
# usage: try_seeded.sh <seeded dir name> <property id>...  - applies the seeded change to /repo, runs the quick checks, undoes it
S="/verif/seeded/$1"; shift
cd /repo && test -z "$(git status --porcelain)" || { echo "/repo not clean"; exit 1; }
git -C /repo apply "$S/patch.diff" || exit 1
for p in "$@"; do
  cd /verif && timeout 900 ./check $p --tier quick > /var/tmp/seeded.$p.out 2>&1; echo "$(basename $S) $p exit=$? $(grep -c '^VIOLATION' /var/tmp/seeded.$p.out) violation lines"
  grep '^VIOLATION' /var/tmp/seeded.$p.out | head -3 | cut -c1-220
  grep '^CHECKER-ERROR\|^UNDECIDED' /var/tmp/seeded.$p.out | head -3 | cut -c1-200
done
git -C /repo checkout -- .
