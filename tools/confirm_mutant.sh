#!/bin/sh
# usage: confirm_mutant.sh <worktree> <outdir>   - confirms a seeded change: demo fails with it / passes without it, same passing tests
W="$1"; O="$2"; mkdir -p "$O"
cd "$W" || exit 1
git diff -- pymodbus > "$O/patch.diff"
cp demo.py "$O/demo.py"
test -s "$O/patch.diff" || { echo "NO CHANGE in $W"; exit 2; }
/venv/bin/python demo.py > "$O/demo.with.txt" 2>&1; a=$?
/venv/bin/python -m pytest -q -p no:cacheprovider --timeout=900 --continue-on-collection-errors -rA 2>/dev/null | grep '^PASSED' | sort > "$O/passed.with.txt"
git checkout -q -- pymodbus
/venv/bin/python demo.py > "$O/demo.without.txt" 2>&1; b=$?
/venv/bin/python -m pytest -q -p no:cacheprovider --timeout=900 --continue-on-collection-errors -rA 2>/dev/null | grep '^PASSED' | sort > "$O/passed.without.txt"
git apply "$O/patch.diff"
n1=$(wc -l < "$O/passed.with.txt"); n2=$(wc -l < "$O/passed.without.txt")
if cmp -s "$O/passed.with.txt" "$O/passed.without.txt"; then same=yes; else same=no; fi
echo "$W demo_with_exit=$a demo_without_exit=$b passed_with=$n1 passed_without=$n2 same_pass_set=$same"
rm -f "$O/passed.with.txt" "$O/passed.without.txt"
