#!/usr/bin/env python3
"""copy the inputs of a replay file into findings/<id>.json (witness of a known finding)"""
import json, sys
rep, fid, what = sys.argv[1], sys.argv[2], sys.argv[3]
r = json.load(open(rep))
json.dump({'unit': r['unit'], 'label': r['label'], 'what': what, 'inputs': r['inputs']}, open('findings/%s.json' % fid, 'w'), indent=1)
print(fid, r['unit'], r['label'], json.dumps(r['inputs'])[:200])
