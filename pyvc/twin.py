"""Concrete side of a check, run under /venv/bin/python (real pymodbus importable, no solver):
  * replay of counter-models produced by the engine,
  * replay of the committed witnesses of known findings,
  * executable twins (seeded, boundary-biased bounded runs of every property-level unit).
Reads a job file (JSON), writes a result file (JSON).  Never decides a verdict by itself."""
import sys, json, importlib, time, traceback, os, logging


def load_units(prop):
    mod = importlib.import_module('units.' + prop)
    return {u.name: u for u in mod.get_units()}


def jsonable(v):
    if isinstance(v, (bytes, bytearray)):
        return {'kind': 'bytes', 'items': list(v)}
    if isinstance(v, dict):
        return {str(k): jsonable(x) for k, x in v.items()}
    if isinstance(v, (list, tuple)):
        return [jsonable(x) for x in v]
    if isinstance(v, (int, float, str, bool)) or v is None:
        return v
    return repr(v)


def fix_inputs(inp):
    out = {}
    for k, v in inp.items():
        if isinstance(v, dict) and v.get('kind') == 'map':
            out[k] = {'items': {int(a): b for a, b in v['items'].items()}}
        else:
            out[k] = v
    return out


def known_region(meta, active):
    """a failing prove() inside the region of an active known finding is not a new violation"""
    f = meta.get('finding')
    return f is not None and f in active and bool(meta.get('region'))


def main():
    logging.disable(logging.CRITICAL)
    job = json.load(open(sys.argv[1]))
    sys.path.insert(0, job['verif'])
    from pyvc.conc import run_concrete, Gen
    units = load_units(job['prop'])
    active = set(job.get('active_findings', []))
    out = {'replays': [], 'witnesses': [], 'twins': [], 'errors': []}
    for kind in ('replays', 'witnesses'):
        for r in job.get(kind, []):
            u = units.get(r['unit'])
            rec = {'unit': r['unit'], 'label': r['label'], 'id': r.get('id')}
            if u is None:
                rec['status'] = 'no-such-unit'
            else:
                try:
                    status, results, used = run_concrete(u, fix_inputs(r['inputs']))
                    rec['status'] = status
                    labs = [(l, ok, m) for (l, ok, m) in results if l == r['label']]
                    rec['evaluated'] = len(labs)
                    rec['fails'] = any(not ok for (l, ok, m) in labs)
                    rec['fails_in_region'] = any((not ok) and bool(m.get('region')) for (l, ok, m) in labs)
                    rec['other_failures'] = sorted(set(l for (l, ok, m) in results if not ok and l != r['label']))
                except Exception:
                    rec['status'] = 'error'
                    rec['trace'] = traceback.format_exc()
            out[kind].append(rec)
    t_end = time.time() + job.get('twin_seconds', 20)
    seed = job.get('seed', 0)
    for name in job.get('twin_units', []):
        u = units.get(name)
        if u is None:
            continue
        n = job.get('twin_cases', 200)
        rec = {'unit': name, 'cases': 0, 'vacuous': 0, 'evaluated': 0, 'failures': [], 'known': {}, 'labels': {}, 'distinct': 0}
        seen = set()
        for i in range(n):
            if i >= n:
                break
            if time.time() > t_end and rec['cases'] >= 40:
                break
            try:
                g = Gen(seed * 1000003 + i)
                pre = u.twin(g) if getattr(u, 'twin', None) else None      # unit-supplied construction of inputs that satisfy its assumptions
                status, results, used = run_concrete(u, pre, g)
            except Exception:
                out['errors'].append({'unit': name, 'case': i, 'trace': traceback.format_exc()})
                break
            if status == 'vacuous' and not results:
                rec['vacuous'] += 1
                continue
            # clauses evaluated before a later assumption failed were evaluated under the assumptions in force then: they count
            rec['cases'] += 1
            if not used:
                n = 1                      # a unit without inputs is deterministic: one run is all there is
            key = json.dumps(jsonable(used), sort_keys=True)
            if key not in seen:
                seen.add(key)
            hung = any(l.startswith('unit:terminates') and not ok for (l, ok, m) in results)
            for (l, ok, m) in results:
                rec['evaluated'] += 1
                rec['labels'][l] = rec['labels'].get(l, 0) + 1
                if not ok:
                    if known_region(m, active):
                        rec['known'][m['finding']] = rec['known'].get(m['finding'], 0) + 1
                    elif len(rec['failures']) < 5:
                        rec['failures'].append({'label': l, 'inputs': jsonable(used), 'finding': m.get('finding'), 'in_region': bool(m.get('region'))})
            if hung:
                break                  # one input on which the real code does not come back is enough; do not wait for more of them
        rec['distinct'] = len(seen)
        out['twins'].append(rec)
    json.dump(out, open(sys.argv[2], 'w'))


if __name__ == '__main__':
    main()
