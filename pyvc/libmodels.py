"""Library models (DESIGN 2.4): builtins, compat/six shims, struct, binascii, containers.
Trusted; listed in every evidence file; differentially tested against CPython by
`check selftest` (thorough tier)."""
import z3
from . import values as V
from .values import SInt, SBool, Seq, SMap, Obj, Opaque, mk, zint, zbool, Unsupported, to_seq
from .engine import Raised


class Builtin:
    def __init__(self, name, fn):
        self.name, self.fn = name, fn
    def __repr__(self): return 'Builtin<%s>' % self.name


BUILTINS = {}
USED = set()      # names of models actually used on this run (for the evidence)


def builtin(name):
    def deco(fn):
        def wrapped(I, args, kw, fn=fn, name=name):
            USED.add(name)
            return fn(I, args, kw)
        BUILTINS[name] = Builtin(name, wrapped)
        return fn
    return deco


def _interp():
    from . import interp
    return interp


# ----------------------------------------------------------------------------- builtins
@builtin('len')
def _len(I, args, kw):
    v = args[0]
    if isinstance(v, Seq): return v.length()
    if isinstance(v, (list, tuple, dict, str, bytes, set, frozenset)): return len(v)
    if isinstance(v, SMap): raise Unsupported('len of symbolic map')
    if isinstance(v, Obj):
        m = v.cls.find_method('__len__')
        if m is not None: return I.invoke(m, [v], {})
    if isinstance(v, Opaque):
        n = mk(z3.Int(I.st.fresh_name('len_' + v.what)))
        I.st.assume(zint(n) >= 0)
        return n
    raise Raised('TypeError')


@builtin('range')
def _range(I, args, kw):
    it = _interp()
    for a in args:
        if not V._isnum(a): raise Raised('TypeError')
    if len(args) == 1: return it.RangeV(0, args[0], 1)
    if len(args) == 2: return it.RangeV(args[0], args[1], 1)
    return it.RangeV(args[0], args[1], args[2])


@builtin('isinstance')
def _isinstance(I, args, kw):
    v, t = args
    ts = t if isinstance(t, tuple) else (t,)
    return any(_isinst(I, v, x) for x in ts)


def _tname(x):
    from .resolver import ExtName
    if isinstance(x, ExtName): return x.qual
    if isinstance(x, Builtin): return x.name
    return None


def _isinst(I, v, t):
    from .resolver import ClassInfo, ExtName
    if isinstance(t, ClassInfo):
        return isinstance(v, Obj) and v.cls.is_subclass_of(t)
    if isinstance(t, tuple):
        return any(_isinst(I, v, x) for x in t)
    n = _tname(t)
    if n is None:
        raise Unsupported('isinstance against %r' % (t,))
    n = n.split('.')[-1]
    if n == 'object': return True
    if n == 'type': return isinstance(v, ClassInfo)
    if n == 'bool': return isinstance(v, (bool, SBool))
    if n == 'int': return isinstance(v, (int, SInt, SBool))
    if n == 'float': return isinstance(v, float) or (isinstance(v, Opaque) and v.what == 'float')
    if n in ('str', 'string_types', 'text_type', 'unicode'): return isinstance(v, str) or (isinstance(v, Opaque) and v.what == 'str')
    if n == 'bytes': return isinstance(v, bytes) or (isinstance(v, Seq) and v.kind == 'bytes')
    if n == 'bytearray': return isinstance(v, Seq) and v.kind == 'bytearray'
    if n == 'list': return isinstance(v, list) or (isinstance(v, Seq) and v.kind == 'list')
    if n == 'tuple': return isinstance(v, tuple)
    if n == 'dict': return isinstance(v, (dict, SMap))
    if n == 'set': return isinstance(v, set)
    if n in ('Exception', 'BaseException'):
        it = _interp()
        return isinstance(v, it.ExcVal) or (isinstance(v, Obj) and v.cls.is_exception())
    if isinstance(v, Obj):
        return n in v.cls.mro_names()
    it = _interp()
    if isinstance(v, it.ExcVal):
        from .resolver import exception_mro
        return n in exception_mro(v.cls)
    if isinstance(v, Opaque):
        if v.info.get('isinstance') is not None:
            return n in v.info['isinstance']
        return False
    return False


@builtin('issubclass')
def _issubclass(I, args, kw):
    from .resolver import ClassInfo
    c, t = args
    if isinstance(c, ClassInfo):
        ts = t if isinstance(t, tuple) else (t,)
        return any(c.is_subclass_of(x) for x in ts)
    raise Raised('TypeError')


@builtin('hasattr')
def _hasattr(I, args, kw):
    return I.hasattr(args[0], args[1])


@builtin('getattr')
def _getattr(I, args, kw):
    if not isinstance(args[1], str): raise Unsupported('getattr with computed name')
    try:
        return I.getattr(args[0], args[1])
    except Raised as r:
        if r.cls == 'AttributeError' and len(args) > 2: return args[2]
        raise


@builtin('setattr')
def _setattr(I, args, kw):
    if not isinstance(args[1], str): raise Unsupported('setattr with computed name')
    I.setattr(args[0], args[1], args[2])


@builtin('callable')
def _callable(I, args, kw):
    it = _interp()
    from .resolver import FuncInfo, ClassInfo, ExtName
    v = args[0]
    if isinstance(v, (it.BoundMethod, it.Closure, it.Partial, it.NativeMethod, it.PyCallable, FuncInfo, ClassInfo, Builtin, ExtName)): return True
    if isinstance(v, Obj): return v.cls.find_method('__call__') is not None
    if isinstance(v, Opaque): return bool(v.info.get('callable', False))
    return False


@builtin('bool')
def _bool(I, args, kw):
    if not args: return False
    return I.truth(args[0])


@builtin('int')
def _int(I, args, kw):
    if not args: return 0
    v = args[0]
    if len(args) == 2 or 'base' in kw:
        base = args[1] if len(args) == 2 else kw['base']
        return int_of_text(I, v, base)
    if isinstance(v, (SInt, SBool)): return mk(zint(v))
    if isinstance(v, (int, float)): return int(v)
    if isinstance(v, (str, bytes)):
        try: return int(v)
        except ValueError: raise Raised('ValueError')
    if isinstance(v, Seq): return int_of_text(I, v, 10)
    if isinstance(v, Opaque) and v.what == 'float':
        return mk(z3.Int(I.st.fresh_name('int_of_float')))
    raise Raised('TypeError')


def hexval(c):
    """z3: value of an ASCII hex digit character code c, or -1"""
    return z3.If(z3.And(c >= 48, c <= 57), c - 48, z3.If(z3.And(c >= 65, c <= 70), c - 55, z3.If(z3.And(c >= 97, c <= 102), c - 87, z3.IntVal(-1))))


def int_of_text(I, v, base):
    """int(b, 16) on bytes: exact when every character is a hex digit; otherwise over-approximate
    ('returns any int or raises ValueError': CPython accepts signs, blanks, underscores, 0x)"""
    if isinstance(v, (str, bytes)) and isinstance(base, int):
        try: return int(v, base)
        except ValueError: raise Raised('ValueError')
    if not isinstance(v, Seq) or base != 16:
        raise Unsupported('int() of %r base %r' % (v, base))
    if v.items is None:
        # a short slice of a symbolic-length buffer (buffer[1:3]): case split on its actual length
        nz = zint(v.n)
        if not I.st.provable(z3.And(nz >= 0, nz <= 8)):
            raise Unsupported('int(text, 16) of symbolic-length text')
        for k in range(0, 9):
            if I.st.decide(nz == k):
                v = Seq('bytes', None, items=[v.at(j) for j in range(k)])
                break
    if not v.items:
        raise Raised('ValueError')
    hv = [hexval(zint(c)) for c in v.items]
    allhex = z3.And(*[h >= 0 for h in hv])
    if I.st.decide(allhex):
        acc = z3.IntVal(0)
        for h in hv: acc = acc * 16 + h
        return mk(acc)
    # some character is not a hex digit: CPython may still accept (e.g. b' 1', b'+1', b'1_0'); over-approximate
    if I.st.decide(z3.Bool(I.st.fresh_name('int_accepts_nonhex'))):
        return mk(z3.Int(I.st.fresh_name('int_nonhex')))
    raise Raised('ValueError')


@builtin('float')
def _float(I, args, kw):
    v = args[0] if args else 0
    if isinstance(v, (int, float)) and not V.is_sym(v): return float(v)
    return Opaque('float')


@builtin('str')
def _str(I, args, kw):
    if not args: return ''
    v = args[0]
    if isinstance(v, SInt): return _interp().NumStr(v)
    if isinstance(v, (str, int, float)) and not V.is_sym(v): return str(v)
    if isinstance(v, Obj):
        found, f = v.cls.lookup('__str__')
        if found and type(f).__name__ == 'FuncInfo':
            return I.invoke(f, [v], {})
    return Opaque('str')


@builtin('repr')
def _repr(I, args, kw):
    return Opaque('str')


@builtin('hex')
def _hex(I, args, kw):
    v = args[0]
    if isinstance(v, int): return hex(v)
    if isinstance(v, (SInt, SBool)): return Opaque('str')
    raise Raised('TypeError')


@builtin('chr')
def _chr(I, args, kw):
    v = args[0]
    if isinstance(v, int):
        try: return chr(v)
        except ValueError: raise Raised('ValueError')
    return Opaque('str')


@builtin('ord')
def _ord(I, args, kw):
    v = args[0]
    if isinstance(v, str) and len(v) == 1: return ord(v)
    if isinstance(v, bytes) and len(v) == 1: return v[0]
    if isinstance(v, Seq) and v.kind == 'bytes':
        if isinstance(v.n, int):
            if v.n == 1: return v.at(0)
            raise Raised('TypeError')
        if I.st.decide(zint(v.n) == 1): return v.at(0)
        raise Raised('TypeError')
    raise Raised('TypeError')


@builtin('list')
def _list(I, args, kw):
    if not args: return []
    v = args[0]
    if isinstance(v, Seq):
        if v.items is not None: return list(v.items)
        return v.as_kind('list')
    return list(I.iterate(v))


@builtin('tuple')
def _tuple(I, args, kw):
    if not args: return ()
    return tuple(I.iterate(args[0]))


@builtin('set')
def _set(I, args, kw):
    if not args: return set()
    v = args[0]
    it = _interp()
    if isinstance(v, it.RangeV) and not v.concrete():
        return SymRangeSet(v)
    items = I.iterate(v)
    if any(V.is_sym(x) for x in items):
        return SymSet(items)
    return set(items)


@builtin('frozenset')
def _frozenset(I, args, kw):
    return frozenset(_set(I, args, kw))


class SymRangeSet:
    """set(range(a, b)) with symbolic bounds (sparse block validate)"""
    def __init__(self, rng): self.rng = rng


class SymSet:
    def __init__(self, items): self.items = list(items)


class KeysView:
    def __init__(self, m): self.m = m


@builtin('dict')
def _dict(I, args, kw):
    d = {}
    if args:
        v = args[0]
        if isinstance(v, dict): d.update(v)
        elif isinstance(v, SMap): return v.snapshot()
        elif isinstance(v, _interp().EnumerateV):
            s = v.seq
            if s.items is not None:
                for j, x in enumerate(s.items): d[j + v.start] = x
            else:
                n = zint(s.n); start = v.start
                return SMap(lambda k: z3.And(zint(k) >= start, zint(k) < start + n), lambda k: s.at(mk(zint(k) - start)), s.elem)
        else:
            for item in I.iterate(v):
                k, val = I.iterate(item) if not isinstance(item, tuple) else item
                d[k] = val
    d.update(kw)
    return d


@builtin('enumerate')
def _enumerate(I, args, kw):
    it = _interp()
    start = args[1] if len(args) > 1 else kw.get('start', 0)
    v = args[0]
    if isinstance(v, Seq) and v.items is None:
        return it.EnumerateV(v, start)
    return it.IterV([(i + start, x) for i, x in enumerate(I.iterate(v))])


@builtin('zip')
def _zip(I, args, kw):
    it = _interp()
    return it.IterV(list(zip(*[I.iterate(a) for a in args])))


@builtin('reversed')
def _reversed(I, args, kw):
    it = _interp()
    return it.IterV(list(reversed(I.iterate(args[0]))))


@builtin('sorted')
def _sorted(I, args, kw):
    items = I.iterate(args[0])
    if any(V.is_sym(x) for x in items): raise Unsupported('sorted of symbolic items')
    if 'key' in kw and kw['key'] is not None:
        return sorted(items, key=lambda x: I.call_value(kw['key'], [x], {}), reverse=kw.get('reverse', False))
    return sorted(items, reverse=kw.get('reverse', False))


@builtin('iter')
def _iter(I, args, kw):
    it = _interp()
    v = args[0]
    if isinstance(v, it.IterV): return v
    r = it.IterV(I.iterate(v))
    if isinstance(v, list):
        r.live = v                       # a list iterator reads the live list
    elif isinstance(v, dict):
        r.live_dict = v
    elif isinstance(v, KeysView) and isinstance(v.m, dict):
        r.live_dict = v.m
    return r


@builtin('next')
def _next(I, args, kw):
    it = _interp()
    v = args[0]
    if isinstance(v, it.IterV):
        if v.pos < len(v.items):
            v.pos += 1
            return v.items[v.pos - 1]
        if len(args) > 1: return args[1]
        raise Raised('StopIteration')
    if isinstance(v, FirstOf):
        return v.get(I)
    raise Unsupported('next() on %r' % (v,))


class FirstOf:
    """iterator whose only modelled use is next(): first key/value of a symbolic map"""
    def __init__(self, what, m): self.what, self.m = what, m
    def get(self, I):
        raise Unsupported('first element of a symbolic map')


@builtin('sum')
def _sum(I, args, kw):
    v = args[0]
    start = args[1] if len(args) > 1 else 0
    if isinstance(v, Seq) and v.items is None:
        return seq_sum(I, v, start)
    acc = start
    for x in I.iterate(v):
        acc = I.binop(_interp().ast.Add, acc, x)
    return acc


def seq_sum(I, s, start):
    """sum over a symbolic-length sequence = the uninterpreted fold 'psum' with its unfolding axioms
    (same function the spec side obtains through E.fold('psum', ...))"""
    from .sym import SymE
    E = SymE(I.st, I.cfg)
    E.I = I
    r = E.fold('psum', s, 0, lambda acc, b: acc + b, additive=True)
    return I.binop(_interp().ast.Add, start, r) if not (isinstance(start, int) and start == 0) else r


@builtin('min')
def _min(I, args, kw):
    items = args if len(args) > 1 else I.iterate(args[0])
    if not items: raise Raised('ValueError')
    if all(isinstance(x, (int, float)) for x in items): return min(items)
    acc = zint(items[0])
    for x in items[1:]: acc = z3.If(zint(x) < acc, zint(x), acc)
    return mk(acc)


@builtin('max')
def _max(I, args, kw):
    items = args if len(args) > 1 else I.iterate(args[0])
    if not items: raise Raised('ValueError')
    if all(isinstance(x, (int, float)) for x in items): return max(items)
    acc = zint(items[0])
    for x in items[1:]: acc = z3.If(zint(x) > acc, zint(x), acc)
    return mk(acc)


@builtin('abs')
def _abs(I, args, kw):
    v = args[0]
    if isinstance(v, (int, float)): return abs(v)
    return mk(z3.If(zint(v) < 0, -zint(v), zint(v)))


@builtin('round')
def _round(I, args, kw):
    v = args[0]
    if isinstance(v, (int, float)) and all(isinstance(a, int) for a in args[1:]): return round(*args)
    return Opaque('float')


@builtin('any')
def _any(I, args, kw):
    cs = []
    for x in I.iterate(args[0]):
        t = I.truth(x)
        if t is True: return True
        if t is not False: cs.append(zbool(t))
    return mk(z3.Or(*cs)) if cs else False


@builtin('all')
def _all(I, args, kw):
    cs = []
    for x in I.iterate(args[0]):
        t = I.truth(x)
        if t is False: return False
        if t is not True: cs.append(zbool(t))
    return mk(z3.And(*cs)) if cs else True


@builtin('map')
def _map(I, args, kw):
    it = _interp()
    return it.IterV([I.call_value(args[0], [x], {}) for x in I.iterate(args[1])])


@builtin('filter')
def _filter(I, args, kw):
    it = _interp()
    return it.IterV([x for x in I.iterate(args[1]) if I.decide(I.call_value(args[0], [x], {}) if args[0] is not None else x)])


@builtin('print')
def _print(I, args, kw):
    return None


@builtin('id')
def _id(I, args, kw):
    v = args[0]
    return getattr(v, 'oid', id(v))


@builtin('type')
def _type(I, args, kw):
    from .resolver import ExtName
    v = args[0]
    if isinstance(v, Obj): return v.cls
    if isinstance(v, (bool, SBool)): return ExtName('bool')
    if isinstance(v, (int, SInt)): return ExtName('int')
    if isinstance(v, float): return ExtName('float')
    if isinstance(v, str): return ExtName('str')
    if isinstance(v, (bytes,)) or isinstance(v, Seq) and v.kind == 'bytes': return ExtName('bytes')
    if isinstance(v, list) or isinstance(v, Seq): return ExtName('list')
    if isinstance(v, dict): return ExtName('dict')
    if isinstance(v, tuple): return ExtName('tuple')
    if v is None: return ExtName('NoneType')
    raise Unsupported('type() of %r' % (v,))


@builtin('property')
def _property(I, args, kw):
    it = _interp()
    return it.PropertyV(args[0] if args else kw.get('fget'), args[1] if len(args) > 1 else kw.get('fset'))


@builtin('bytes')
def _bytes(I, args, kw):
    if not args: return b''
    v = args[0]
    if isinstance(v, bytes): return v
    if isinstance(v, int): return bytes(v)
    if isinstance(v, str):
        return v.encode(args[1] if len(args) > 1 else kw.get('encoding', 'utf-8'))
    if isinstance(v, Seq) and v.kind in ('bytes', 'bytearray'):
        return v.as_kind('bytes')
    if isinstance(v, Seq) and v.kind == 'list' and v.items is None:
        raise Unsupported('bytes() of a symbolic-length list')
    if isinstance(v, Seq) and v.kind == 'list':
        v = list(v.items)
    if isinstance(v, (list, tuple)):
        items = list(v)
        for x in items:
            if V.is_sym(x):
                if not I.st.decide(z3.And(zint(x) >= 0, zint(x) < 256)): raise Raised('ValueError')
            elif not isinstance(x, int): raise Raised('TypeError')
            elif not 0 <= x < 256: raise Raised('ValueError')
        return Seq('bytes', None, items=items)
    raise Unsupported('bytes() of %r' % (v,))


@builtin('bytearray')
def _bytearray(I, args, kw):
    r = _bytes(I, args, kw)
    return to_seq(r).as_kind('bytearray')


@builtin('object')
def _object(I, args, kw):
    return Opaque('object')


@builtin('vars')
def _vars(I, args, kw):
    from .resolver import ClassInfo
    v = args[0]
    if isinstance(v, ClassInfo):
        return dict(_interp().class_ns(v))
    if isinstance(v, Obj): return v.fields
    raise Unsupported('vars')


for _n in ('True', 'False', 'None'):
    pass
BUILTINS['NotImplemented'] = Opaque('NotImplemented')
BUILTINS['__debug__'] = True


# ----------------------------------------------------------------------------- compat / six (A10)
def _byte2int(I, args, kw):
    return args[0]


def _int2byte(I, args, kw):
    return struct_pack(I, 'B', [args[0]])


def _iteritems(I, args, kw):
    it = _interp()
    d = args[0]
    if isinstance(d, dict): return it.IterV(list(d.items()))
    if isinstance(d, SMap): return MapItems(d)
    if isinstance(d, Obj):
        m = d.cls.find_method('items')
        if m: return I.invoke(m, [d], {})
    raise Unsupported('iteritems of %r' % (d,))


class MapItems:
    def __init__(self, m): self.m = m


def _iterkeys(I, args, kw):
    it = _interp()
    d = args[0]
    if isinstance(d, dict): return it.IterV(list(d.keys()))
    if isinstance(d, SMap): return KeysView(d)
    raise Unsupported('iterkeys')


def _itervalues(I, args, kw):
    it = _interp()
    d = args[0]
    if isinstance(d, dict): return it.IterV(list(d.values()))
    if isinstance(d, SMap): return FirstOf('value', d)
    raise Unsupported('itervalues')


COMPAT_NS = {
    'IS_PYTHON2': False, 'IS_PYTHON3': True, 'IS_PYPY': False, 'IS_JYTHON': False,
    'PYTHON_VERSION': Opaque('version_info', attrs_set={'major': 3, 'minor': 12, 'micro': 1}),
    'byte2int': Builtin('byte2int', _byte2int), 'int2byte': Builtin('int2byte', _int2byte),
    'iteritems': Builtin('iteritems', _iteritems), 'iterkeys': Builtin('iterkeys', _iterkeys),
    'itervalues': Builtin('itervalues', _itervalues), 'get_next': BUILTINS['next'],
    'izip': BUILTINS['zip'], 'imap': BUILTINS['map'], 'ifilter': BUILTINS['filter'],
    'range_type': BUILTINS['range'], 'unichr': BUILTINS['chr'],
    'implements_to_string': Builtin('implements_to_string', lambda I, a, k: a[0]),
    'string_types': (BUILTINS['str'],), 'text_type': (BUILTINS['str'],),
    'unicode_string': Builtin('unicode_string', lambda I, a, k: a[0]),
    'is_installed': Builtin('is_installed', lambda I, a, k: True),
}
from .resolver import ExtModule as _EM
COMPAT_NS['socketserver'] = _EM('socketserver')


# ----------------------------------------------------------------------------- struct
STRUCT_SIZES = {'B': 1, 'b': 1, 'H': 2, 'h': 2, 'I': 4, 'i': 4, 'L': 4, 'l': 4, 'Q': 8, 'q': 8, 'e': 2, 'f': 4, 'd': 8, 'c': 1, '?': 1, 'x': 1}


def parse_fmt(fmt):
    """-> (byteorder, [(count, char)])  ('s' keeps its count as a length)"""
    if isinstance(fmt, bytes): fmt = fmt.decode()
    if not isinstance(fmt, str): raise Unsupported('struct format is not a constant string: %r' % (fmt,))
    order = '@'
    if fmt and fmt[0] in '@=<>!':
        order, fmt = fmt[0], fmt[1:]
    out, num = [], ''
    for ch in fmt:
        if ch.isdigit(): num += ch; continue
        if ch.isspace(): continue
        if ch not in STRUCT_SIZES and ch != 's': raise Raised('struct.error')
        cnt = int(num) if num else 1
        num = ''
        if ch == 's': out.append((cnt, 's'))
        else:
            for _ in range(cnt): out.append((1, ch))
    if order in '@=': order = '<'       # native == little endian on this platform; native alignment not modelled
    if order == '!': order = '>'
    return order, out


def fmt_size(fmt):
    order, items = parse_fmt(fmt)
    return sum(c if ch == 's' else STRUCT_SIZES[ch] for c, ch in items)


def float_fn(ch, direction):
    """uninterpreted IEEE conversions: value-id <-> integer bit pattern (axiom: unpack(pack(v)) = v)"""
    return z3.Function('f%s_%s' % (ch, direction), z3.IntSort(), z3.IntSort())


class FloatV:
    """abstract float value identified by an integer term (C19 only)"""
    def __init__(self, ident): self.ident = ident


def struct_pack(I, fmt, vals):
    USED.add('struct.pack')
    if isinstance(fmt, _interp().FmtS):
        # '<' + str(n) + 's' with n == len(value): the value itself (no padding, no truncation)
        if fmt.suffix != 's' or len(vals) != 1: raise Unsupported('dynamic struct format')
        v = to_seq(vals[0])
        if not v.is_bytes(): raise Raised('struct.error')
        if not I.st.provable(zint(v.n) == zint(fmt.n)): raise Unsupported("'%ds' item whose length is not the count")
        return v.as_kind('bytes')
    order, items = parse_fmt(fmt)
    nvals = sum(1 for c, ch in items if ch != 'x')
    if nvals != len(vals): raise Raised('struct.error')
    out, vi = [], 0
    for cnt, ch in items:
        if ch == 'x':
            out.append(0); continue
        v = vals[vi]; vi += 1
        if ch == 's':
            if not isinstance(v, (bytes, Seq)) or (isinstance(v, Seq) and not v.is_bytes()): raise Raised('struct.error')
            s = to_seq(v)
            if s.items is None:
                if not I.st.decide(zint(s.n) == cnt):
                    raise Unsupported("struct 's' item with symbolic length different from the count")
                out.extend(s.at(j) for j in range(cnt))
            else:
                it = list(s.items)[:cnt]
                out.extend(it + [0] * (cnt - len(it)))
            continue
        n = STRUCT_SIZES[ch]
        if ch in 'efd':
            if isinstance(v, FloatV):
                bits = mk(float_fn(ch, 'bits')(zint(v.ident)))
                I.st.assume(z3.And(zint(bits) >= 0, zint(bits) < 256 ** n))
            elif isinstance(v, (int, float)) and not V.is_sym(v):
                import struct as _s
                try: raw = _s.pack('>' + ch, v)
                except (OverflowError, _s.error): raise Raised('struct.error' if ch != 'e' else 'OverflowError')
                bits = int.from_bytes(raw, 'big')
            else:
                raise Raised('struct.error')
            bs = []
            for k in reversed(range(n)):
                bt = mk((zint(bits) / (256 ** k)) % 256)
                if isinstance(bt, SInt):
                    bt.part = (zint(bits), k, 1)
                bs.append(bt)
        elif ch == '?':
            t = I.truth(v)
            bs = [mk(zint(t))]
        elif ch == 'c':
            raise Unsupported("struct 'c'")
        else:
            if isinstance(v, float) or not V._isnum(v): raise Raised('struct.error')
            signed = ch.islower()
            lo, hi = (-(256 ** n) // 2, (256 ** n) // 2) if signed else (0, 256 ** n)
            if isinstance(v, int):
                if not lo <= v < hi: raise Raised('struct.error')
                u = v % (256 ** n)
                bs = [(u >> (8 * k)) & 255 for k in reversed(range(n))]
            else:
                vz = zint(v)
                if not I.st.decide(z3.And(vz >= lo, vz < hi)): raise Raised('struct.error')
                u = z3.If(vz < 0, vz + 256 ** n, vz) if signed else vz
                if isinstance(v, SInt) and v.bytes_be is not None and len(v.bytes_be) == n and not signed:
                    # pack(unpack(bytes)) of the same unsigned width gives the bytes back
                    bs = list(v.bytes_be)
                    if order == '<': bs = list(reversed(bs))
                    out.extend(bs)
                    continue
                # byte-slice provenance: byte j of the n-byte image of u is (u div 256^(n-1-j)) mod 256.  Values that are
                # themselves slices (u0, k0, n) keep pointing at the original value u0.
                if isinstance(v, SInt) and v.part is not None and v.part[2] == n and not signed:
                    u0, k0 = v.part[0], v.part[1]
                else:
                    u0, k0 = u, 0
                bs = []
                for k in reversed(range(n)):
                    # byte k of the slice (u0 div 256^k0) mod 256^n is (u0 div 256^(k0+k)) mod 256: same term shape everywhere
                    bt = mk((u0 / (256 ** (k0 + k))) % 256)
                    if isinstance(bt, SInt):
                        bt.part = (u0, k0 + k, 1)
                    bs.append(bt)
        if order == '<': bs = list(reversed(bs))
        out.extend(bs)
    return Seq('bytes', None, items=out)


def struct_unpack_rep(I, fmt, data):
    """struct.unpack('>' + 'H' * n, data) with symbolic n: a tuple of n big-endian values (as a sequence)"""
    it = _interp()
    order = fmt.prefix if fmt.prefix in ('>', '<', '!', '=', '@', '') else None
    if order is None or fmt.ch not in ('H', 'B'):
        raise Unsupported('dynamic struct format %r%r*n' % (fmt.prefix, fmt.ch))
    w = STRUCT_SIZES[fmt.ch]
    s = to_seq(data)
    n = zint(fmt.n)
    nn = z3.If(n < 0, z3.IntVal(0), n)
    ln = zint(s.n) if not isinstance(s.n, int) else z3.IntVal(s.n)
    if not I.st.decide(ln == nn * w):
        raise Raised('struct.error')
    big = order in ('>', '!')
    def at(k, s=s):
        kz = zint(k)
        if w == 1:
            return s.at(mk(kz))
        a, b = zint(s.at(mk(kz * 2))), zint(s.at(mk(kz * 2 + 1)))
        return mk(a * 256 + b) if big else mk(b * 256 + a)
    return Seq('list', z3.simplify(nn), at=at)


def struct_unpack(I, fmt, data):
    USED.add('struct.unpack')
    if isinstance(fmt, _interp().RepStr):
        return struct_unpack_rep(I, fmt, data)
    order, items = parse_fmt(fmt)
    need = sum(c if ch == 's' else STRUCT_SIZES[ch] for c, ch in items)
    if isinstance(data, Opaque):
        raise Unsupported('struct.unpack of opaque data')
    if not isinstance(data, (bytes, Seq)) or (isinstance(data, Seq) and not data.is_bytes()): raise Raised('TypeError')
    s = to_seq(data)
    if isinstance(s.n, int):
        if s.n != need: raise Raised('struct.error')
    elif not I.st.decide(zint(s.n) == need):
        raise Raised('struct.error')
    out, pos = [], 0
    for cnt, ch in items:
        if ch == 'x': pos += 1; continue
        if ch == 's':
            out.append(Seq('bytes', None, items=[s.at(pos + j) for j in range(cnt)])); pos += cnt; continue
        n = STRUCT_SIZES[ch]
        bs = [s.at(pos + j) for j in range(n)]; pos += n
        if order == '<': bs = list(reversed(bs))
        if all(isinstance(b, int) for b in bs):
            u = 0
            for b in bs: u = u * 256 + b
            if ch in 'efd':
                import struct as _s
                out.append(_s.unpack('>' + ch, u.to_bytes(n, 'big'))[0]); continue
            if ch == '?': out.append(u != 0); continue
            if ch.islower() and u >= (256 ** n) // 2: u -= 256 ** n
            out.append(u); continue
        # recomposition of consecutive byte slices of one value u0:  sum_j byte_j * 256^(n-1-j) == (u0 div 256^k) mod 256^n
        parts = [b.part if isinstance(b, SInt) else None for b in bs]
        if n >= 2 and all(p is not None and p[2] == 1 for p in parts) and all(parts[j][0].eq(parts[0][0]) and parts[j][1] == parts[0][1] - j for j in range(n)):
            u0, k0 = parts[0][0], parts[-1][1]
            t = u0 if k0 == 0 else u0 / (256 ** k0)
            t = t % (256 ** n)
            if k0 == 0 and I.st.quick(z3.And(u0 >= 0, u0 < 256 ** n)):
                t = u0
            if ch in 'efd':
                ident = mk(float_fn(ch, 'val')(t))
                out.append(FloatV(ident)); continue
            if ch.islower():
                t = z3.If(t >= (256 ** n) // 2, t - 256 ** n, t)
            r = mk(t)
            if isinstance(r, SInt) and not ch.islower():
                r.part = (u0, k0, n)
                r.bytes_be = list(bs)
            out.append(r)
            continue
        u = z3.IntVal(0)
        for b in bs: u = u * 256 + zint(b)
        if ch in 'efd':
            ident = mk(float_fn(ch, 'val')(u))
            out.append(FloatV(ident)); continue
        if ch == '?': out.append(mk(u != 0)); continue
        if ch.islower():
            u = z3.If(u >= (256 ** n) // 2, u - 256 ** n, u)
        r = mk(u)
        if isinstance(r, SInt) and not ch.islower() and n >= 2:
            r.bytes_be = list(bs)
        out.append(r)
    return tuple(out)


# ----------------------------------------------------------------------------- sequences: find etc.
def seq_find(I, s, sub, start=0):
    """bytes.find(sub, start) -> SInt r with the defining axioms (first occurrence)"""
    st = I.st
    if s.items is not None and sub.items is not None and all(isinstance(x, int) for x in s.items + sub.items) and isinstance(start, int):
        return bytes(s.items).find(bytes(sub.items), start)
    if sub.items is None: raise Unsupported('find of symbolic-length needle')
    m = len(sub.items)
    n = zint(s.n) if not isinstance(s.n, int) else z3.IntVal(s.n)
    s0q = zint(start)
    if isinstance(start, int) and start >= 0 and m > 0:
        # the needle sits right at the start position: that is the first occurrence
        here = z3.And(s0q + m <= n, *[s.zat(mk(s0q + j)) == zint(sub.items[j]) for j in range(m)])
        if st.quick(here):
            return start
    if s.parts and isinstance(start, int) and start >= 0 and m > 0:
        # candidate: the needle starts exactly at a part boundary c of the concatenation.  It is the first occurrence iff it
        # matches there and matches nowhere in [start, c): the latter is proved pointwise at a fresh index (skolemised query)
        b = z3.IntVal(0)
        for p_ in s.parts:
            c = b
            b = z3.simplify(b + (p_.n if not isinstance(p_.n, int) else z3.IntVal(p_.n)))
            if not st.quick(c >= start):
                continue
            at_c = z3.And(c + m <= n, *[s.zat(mk(c + j)) == zint(sub.items[j]) for j in range(m)])
            if not st.provable(at_c):
                continue
            k0 = z3.Int(st.fresh_name('fk'))
            earlier = z3.And(*[s.zat(mk(k0 + j)) == zint(sub.items[j]) for j in range(m)])
            if st.provable(z3.Implies(z3.And(k0 >= start, k0 < c), z3.Not(earlier))):
                return mk(c)
            break
    r = z3.Int(st.fresh_name('find'))
    s0 = zint(start)
    s0 = z3.If(s0 < 0, z3.If(s0 + n < 0, z3.IntVal(0), s0 + n), s0)
    def match(p):
        return z3.And(*[s.zat(mk(p + j)) == zint(sub.items[j]) for j in range(m)]) if m else z3.BoolVal(True)
    k = z3.Int(st.fresh_name('k'))
    st.assume(z3.Or(r == -1, z3.And(r >= s0, r + m <= n, match(r))))
    st.assume(z3.ForAll([k], z3.Implies(z3.And(k >= s0, k + m <= n, z3.If(r == -1, z3.BoolVal(True), k < r)), z3.Not(match(k)))))
    if s.parts:
        # the haystack is a concatenation: when the path condition decides that the first occurrence sits exactly on a part
        # boundary, continue with that boundary term (slices taken at it then recover the parts themselves)
        b = z3.IntVal(0)
        cands = []
        for p_ in s.parts:
            cands.append(b)
            b = z3.simplify(b + (p_.n if not isinstance(p_.n, int) else z3.IntVal(p_.n)))
        for c in cands:
            if st.provable(r == c):
                st.assume(r == c)
                return mk(c)
    return mk(r)


def seq_rfind(I, s, sub):
    """bytes.rfind(sub) -> SInt r with the defining axioms (last occurrence, -1 if there is none)"""
    st = I.st
    if s.items is not None and sub.items is not None and all(isinstance(x, int) for x in s.items + sub.items):
        return bytes(s.items).rfind(bytes(sub.items))
    if sub.items is None: raise Unsupported('rfind of symbolic-length needle')
    m = len(sub.items)
    n = zint(s.n) if not isinstance(s.n, int) else z3.IntVal(s.n)
    r = z3.Int(st.fresh_name('rfind'))
    def match(p):
        return z3.And(*[s.zat(mk(p + j)) == zint(sub.items[j]) for j in range(m)]) if m else z3.BoolVal(True)
    k = z3.Int(st.fresh_name('k'))
    st.assume(z3.Or(r == -1, z3.And(r >= 0, r + m <= n, match(r))))
    st.assume(z3.ForAll([k], z3.Implies(z3.And(k >= 0, k + m <= n, k > r), z3.Not(match(k)))))
    return mk(r)


def native_method(I, recv, name, args, kw):
    it = _interp()
    st = I.st
    # ---- Opaque receivers: external objects (loggers, sockets, locks, deferreds...)
    if isinstance(recv, Opaque):
        return opaque_method(I, recv, name, args, kw)
    if isinstance(recv, it.SuperV):
        # method of an external base class
        for c in (recv.obj.cls.mro() if isinstance(recv.obj, Obj) else []):
            from .resolver import ExtName
            if isinstance(c, ExtName):
                key = c.qual + '.' + name
                if key in I.cfg.ext:
                    return I.cfg.ext[key](I, [recv.obj] + list(args), kw)
        if name == '__init__': return None
        raise Unsupported('super().%s' % name)
    if isinstance(recv, it.ExcVal):
        raise Unsupported('method %s of exception value' % name)
    USED.add('%s.%s' % (type(recv).__name__ if not isinstance(recv, Seq) else recv.kind, name))
    # ---- dict
    if isinstance(recv, dict):
        if name == 'get':
            key = args[0]; default = args[1] if len(args) > 1 else kw.get('default')
            if V.is_sym(key):
                for k in recv:
                    if V._isnum(k) and st.decide(V._cmp('==', key, k)): return recv[k]
                return default
            try:
                return recv.get(key, default)
            except TypeError:
                raise Raised('TypeError')
        if name in ('keys', 'values', 'items'):
            return it.IterV(list(getattr(recv, name)()))
        if name == 'pop':
            key = args[0]
            if V.is_sym(key):
                for k in list(recv):
                    if V._isnum(k) and st.decide(V._cmp('==', key, k)): return recv.pop(k)
                if len(args) > 1: return args[1]
                raise Raised('KeyError')
            if key in recv: return recv.pop(key)
            if len(args) > 1: return args[1]
            raise Raised('KeyError')
        if name == 'update':
            if args:
                src = args[0]
                if isinstance(src, dict): recv.update(src)
                else:
                    for item in I.iterate(src):
                        k, v = item
                        recv[k] = v
            recv.update(kw); return None
        if name == 'setdefault':
            if V.is_sym(args[0]): raise Unsupported('setdefault with symbolic key')
            return recv.setdefault(args[0], args[1] if len(args) > 1 else None)
        if name == 'clear': recv.clear(); return None
        if name == 'copy': return dict(recv)
        if name == '__setitem__': I.setitem(recv, args[0], args[1]); return None
        if name == '__getitem__': return I.getitem(recv, args[0])
        if name == '__contains__': return I.contains(recv, args[0])
        raise Unsupported('dict.%s' % name)
    if isinstance(recv, SMap):
        if name == 'get':
            d = args[1] if len(args) > 1 else None
            if st.decide(recv.has(args[0])): return recv.get(args[0])
            return d
        if name == 'keys': return KeysView(recv)
        if name == '__setitem__': recv.set(args[0], args[1]); return None
        if name == 'pop':
            if st.decide(recv.has(args[0])):
                v = recv.get(args[0]); recv.delete(args[0]); return v
            if len(args) > 1: return args[1]
            raise Raised('KeyError')
        raise Unsupported('symbolic map .%s' % name)
    # ---- list
    if isinstance(recv, list):
        if name == 'append': recv.append(args[0]); return None
        if name == 'extend':
            src = args[0]
            if isinstance(src, Seq) and src.items is None: raise Unsupported('extend of native list by symbolic-length sequence')
            recv.extend(I.iterate(src)); return None
        if name == 'pop':
            if not recv: raise Raised('IndexError')
            idx = args[0] if args else -1
            if not isinstance(idx, int): raise Unsupported('list.pop(symbolic)')
            try: return recv.pop(idx)
            except IndexError: raise Raised('IndexError')
        if name == 'insert':
            if not isinstance(args[0], int): raise Unsupported('insert at symbolic index')
            recv.insert(args[0], args[1]); return None
        if name == 'remove':
            for j, x in enumerate(recv):
                c = I.equal(x, args[0])
                if c is True or (c is not False and st.decide(c)):
                    del recv[j]; return None
            raise Raised('ValueError')
        if name == 'index':
            for j, x in enumerate(recv):
                c = I.equal(x, args[0])
                if c is True or (c is not False and st.decide(c)): return j
            raise Raised('ValueError')
        if name == 'count':
            return sum(1 for x in recv if I.decide(I.equal(x, args[0])))
        if name == 'reverse': recv.reverse(); return None
        if name == 'copy': return list(recv)
        if name == 'clear': del recv[:]; return None
        if name == 'sort':
            if any(V.is_sym(x) for x in recv): raise Unsupported('sort symbolic')
            recv.sort(); return None
        if name == '__setitem__': I.setitem(recv, args[0], args[1]); return None
        if name == '__getitem__': return I.getitem(recv, args[0])
        if name == '__iter__': return it.IterV(list(recv))
        raise Unsupported('list.%s' % name)
    if isinstance(recv, tuple):
        if name == 'index' or name == 'count': return native_method(I, list(recv), name, args, kw)
        raise Unsupported('tuple.%s' % name)
    if isinstance(recv, (set, frozenset)):
        if name == 'issubset':
            o = args[0]
            if isinstance(o, (set, frozenset)): return recv.issubset(o)
        if name == 'add': recv.add(args[0]); return None
        if name == 'discard': recv.discard(args[0]); return None
        if name == 'remove':
            if args[0] not in recv: raise Raised('KeyError')
            recv.remove(args[0]); return None
        if name in ('union', 'intersection', 'difference'):
            return getattr(recv, name)(*[set(I.iterate(a)) for a in args])
        raise Unsupported('set.%s' % name)
    if isinstance(recv, SymRangeSet):
        if name == 'issubset':
            o = args[0]
            r = recv.rng
            k = z3.Int(st.fresh_name('q'))
            lo, hi = zint(r.lo), zint(r.hi)
            if isinstance(o, SymSet) or isinstance(o, (set, frozenset, list)):
                items = o.items if isinstance(o, SymSet) else list(o)
                mem = lambda kk: z3.Or(*[kk == zint(x) for x in items]) if items else z3.BoolVal(False)
            elif isinstance(o, KeysView):
                mem = lambda kk: zbool(o.m.has(mk(kk)))
            elif isinstance(o, SymKeySet):
                mem = lambda kk: zbool(o.m.has(mk(kk)))
            else:
                raise Unsupported('issubset of %r' % (o,))
            return mk(z3.ForAll([k], z3.Implies(z3.And(k >= lo, k < hi), mem(k))))
        raise Unsupported('range-set.%s' % name)
    # ---- str
    if isinstance(recv, str):
        if name == 'format':
            if all(isinstance(a, (int, str, float, type(None), bytes)) and not V.is_sym(a) for a in list(args) + list(kw.values())):
                try: return recv.format(*args, **kw)
                except (IndexError, KeyError, ValueError) as e: raise Raised(type(e).__name__)
            import re
            idx = [m for m in re.findall(r'\{(\d*)[^}]*\}', recv.replace('{{', '').replace('}}', ''))]
            auto = sum(1 for m in idx if m == '')
            mx = max([int(m) + 1 for m in idx if m != ''] + [auto])
            if mx > len(args) and not kw: raise Raised('IndexError')
            return Opaque('str')
        if name == 'encode': return recv.encode(*args)
        if name == 'join' and isinstance(args[0], Opaque):
            return Opaque('str')
        if name == 'join':
            items = I.iterate(args[0])
            if all(isinstance(x, str) for x in items): return recv.join(items)
            if any(not isinstance(x, (str, Opaque)) for x in items): raise Raised('TypeError')
            return Opaque('str')
        if name in ('split', 'rstrip', 'lstrip', 'strip', 'startswith', 'endswith', 'upper', 'lower', 'replace', 'find', 'rjust', 'ljust', 'zfill', 'isdigit', 'title', 'capitalize', 'splitlines', 'rsplit', 'partition', 'count', 'index'):
            if all(not V.is_sym(a) and not isinstance(a, (Opaque, Seq)) for a in args):
                try: return getattr(recv, name)(*args, **kw)
                except ValueError: raise Raised('ValueError')
            return Opaque('str')
        raise Unsupported('str.%s' % name)
    if isinstance(recv, float):
        raise Unsupported('float.%s' % name)
    if V._isnum(recv):
        if name == 'to_bytes' and isinstance(recv, int): return recv.to_bytes(*args, **kw)
        if name == 'bit_length' and isinstance(recv, int): return recv.bit_length()
        raise Unsupported('int.%s' % name)
    # ---- bytes / Seq
    if isinstance(recv, Seq) and recv.kind == 'str':
        if name == 'encode':
            return recv.as_kind('bytes')
        raise Unsupported('method %s of symbolic text' % name)
    if isinstance(recv, (bytes, Seq)):
        s = to_seq(recv)
        if s.kind == 'bytearray':
            if name == 'append':
                x = args[0]
                if V.is_sym(x):
                    if not st.decide(z3.And(zint(x) >= 0, zint(x) < 256)): raise Raised('ValueError')
                elif not isinstance(x, int): raise Raised('TypeError')
                elif not 0 <= x < 256: raise Raised('ValueError')
                new = V.seq_concat(s.copy(), Seq('bytearray', None, items=[x]))
                s.items, s.n, s._at, s.elem, s.parts = new.items, new.n, new._at, new.elem, new.parts
                return None
            if name == 'extend':
                o = args[0]
                if isinstance(o, str): raise Raised('TypeError')
                new = V.seq_concat(s.copy(), to_seq(o).as_kind('bytearray'))
                s.items, s.n, s._at, s.elem, s.parts = new.items, new.n, new._at, new.elem, new.parts
                return None
        if s.kind == 'list':
            if name == 'append':
                new = V.seq_concat(s.copy(), Seq('list', None, items=[args[0]], elem='bool' if isinstance(args[0], (bool, SBool)) and (s.elem == 'bool' or (s.items is not None and not s.items)) else s.elem))
                s.items, s.n, s._at, s.elem = new.items, new.n, new._at, new.elem
                return None
            if name == 'extend':
                new = V.seq_concat(s.copy(), to_seq(args[0]) if not isinstance(args[0], it.IterV) else to_seq(args[0].items))
                s.items, s.n, s._at, s.elem = new.items, new.n, new._at, new.elem
                return None
            if name == '__iter__': return s
            if name == 'pop' :
                idx = args[0] if args else -1
                n = zint(s.n) if not isinstance(s.n, int) else z3.IntVal(s.n)
                if not st.decide(n > 0): raise Raised('IndexError')
                if idx == -1:
                    v = s.at(mk(n - 1)); new = V.seq_slice(s.copy(), 0, mk(n - 1))
                elif idx == 0:
                    v = s.at(0); new = V.seq_slice(s.copy(), 1, None)
                else: raise Unsupported('pop at index')
                s.items, s.n, s._at = new.items, new.n, new._at
                return v
            if name == 'copy': return s.copy()
            if name == 'remove' and s.items is not None:
                for j, x in enumerate(list(s.items)):
                    if st.decide(zbool(V._cmp('==', x, args[0])) if (V.is_sym(x) or V.is_sym(args[0])) else z3.BoolVal(x == args[0])):
                        new = s.items[:j] + s.items[j + 1:]
                        s.items, s.n = new, None
                        return None
                raise Raised('ValueError')
            if name == 'remove' and s.items is None and s.elem == 'int':
                # symbolic-length list: ValueError unless the value occurs; the list afterwards is over-approximated by an arbitrary
                # list one element shorter (sound for proofs; a counter-model that depends on its content will not replay)
                k = z3.Int(st.fresh_name('q'))
                n = zint(s.n)
                if not st.decide(z3.Exists([k], z3.And(k >= 0, k < n, zint(s.at(mk(k))) == zint(args[0])))):
                    raise Raised('ValueError')
                new = Seq.fresh('list', 'after_remove', elem='int', inp=False)
                st.assume(zint(new.n) == n - 1)
                s.items, s.n, s._at = None, new.n, new._at
                return None
            raise Unsupported('list(sym).%s' % name)
        if name == 'find':
            return seq_find(I, s, to_seq(args[0]), args[1] if len(args) > 1 else 0)
        if name == 'rfind' and len(args) == 1:
            return seq_rfind(I, s, to_seq(args[0]))
        if name == 'index':
            r = seq_find(I, s, to_seq(args[0]), args[1] if len(args) > 1 else 0)
            if st.decide(zint(r) < 0): raise Raised('ValueError')
            return r
        if name in ('startswith', 'endswith'):
            sub = to_seq(args[0])
            if sub.items is None: raise Unsupported('startswith symbolic')
            m = len(sub.items)
            n = zint(s.n) if not isinstance(s.n, int) else z3.IntVal(s.n)
            off = z3.IntVal(0) if name == 'startswith' else n - m
            return mk(z3.And(n >= m, *[s.zat(mk(off + j)) == zint(sub.items[j]) for j in range(m)]))
        if name == 'upper' or name == 'lower':
            up = name == 'upper'
            def conv(c):
                cz = zint(c)
                if isinstance(c, int): return (bytes([c]).upper() if up else bytes([c]).lower())[0]
                return mk(z3.If(z3.And(cz >= 97, cz <= 122), cz - 32, cz)) if up else mk(z3.If(z3.And(cz >= 65, cz <= 90), cz + 32, cz))
            if s.items is not None: return Seq('bytes', None, items=[conv(c) for c in s.items])
            return Seq('bytes', s.n, at=lambda k, s=s: conv(s.at(k)))
        if name == 'join' and isinstance(args[0], _interp().ChunkList):
            cl = args[0]
            if s.items is None or s.items:
                raise Unsupported('join of symbolic chunks with a non-empty separator')
            m = cl.m
            def at(k, cl=cl, m=m):
                kz = zint(k)
                ch = cl.fn(mk(kz / m))
                r = zint(ch[-1])
                for j in range(m - 2, -1, -1):
                    r = z3.If(kz % m == j, zint(ch[j]), r)
                return mk(r)
            return Seq('bytes', zint(cl.n) * m if m != 1 else zint(cl.n), at=at)
        if name == 'join':
            items = I.iterate(args[0])
            acc = Seq('bytes', None, items=[])
            for j, x in enumerate(items):
                if not isinstance(x, (bytes, Seq)) or isinstance(x, Seq) and not x.is_bytes(): raise Raised('TypeError')
                if j: acc = V.seq_concat(acc, s)
                acc = V.seq_concat(acc, x)
            return acc
        if name == 'decode':
            if s.items is not None and all(isinstance(c, int) for c in s.items):
                try: return bytes(s.items).decode(*args, **kw)
                except UnicodeDecodeError: raise Raised('UnicodeDecodeError')
            return Opaque('str')
        if name == 'hex': return Opaque('str')
        if name in ('strip', 'rstrip', 'lstrip', 'split', 'replace', 'ljust', 'rjust') and s.items is not None and all(isinstance(c, int) for c in s.items) and all(isinstance(a, (bytes, int)) for a in args):
            return getattr(bytes(s.items), name)(*args)
        if name == '__len__': return s.length()
        raise Unsupported('bytes.%s' % name)
    raise Unsupported('method %s of %r' % (name, recv))


class SymKeySet:
    def __init__(self, m): self.m = m


_orig_set = BUILTINS['set'].fn
def _set2(I, args, kw):
    if args and isinstance(args[0], KeysView):
        return SymKeySet(args[0].m)
    return _orig_set(I, args, kw)
BUILTINS['set'] = Builtin('set', _set2)


# ----------------------------------------------------------------------------- external names
EXT = {}


def ext(name):
    def deco(fn):
        EXT[name] = fn
        return fn
    return deco


@ext('struct.pack')
def _sp(I, args, kw): return struct_pack(I, args[0], list(args[1:]))
@ext('struct.unpack')
def _su(I, args, kw): return struct_unpack(I, args[0], args[1])
@ext('struct.calcsize')
def _sc(I, args, kw): return fmt_size(args[0])


@ext('binascii.b2a_hex')
def _b2a(I, args, kw):
    """lower-case hex of bytes"""
    USED.add('binascii.b2a_hex')
    s = to_seq(args[0])
    def nib(v):
        vz = zint(v)
        if isinstance(v, int): return ord('0123456789abcdef'[v])
        return mk(z3.If(vz < 10, vz + 48, vz + 87))
    def hi(c): return c // 16 if isinstance(c, int) else mk(zint(c) / 16)
    def lo(c): return c % 16 if isinstance(c, int) else mk(zint(c) % 16)
    if s.items is not None:
        out = []
        for c in s.items: out += [nib(hi(c)), nib(lo(c))]
        return Seq('bytes', None, items=out)
    n2 = mk(zint(s.n) * 2)
    def at(k, s=s):
        kz = zint(k)
        c = s.zat(mk(kz / 2))
        v = z3.If(kz % 2 == 0, c / 16, c % 16)
        return mk(z3.If(v < 10, v + 48, v + 87))
    return Seq('bytes', zint(n2), at=at)
EXT['binascii.hexlify'] = _b2a


@ext('binascii.a2b_hex')
def _a2b(I, args, kw):
    USED.add('binascii.a2b_hex')
    s = to_seq(args[0])
    st = I.st
    n = zint(s.n) if not isinstance(s.n, int) else z3.IntVal(s.n)
    if isinstance(s.n, int):
        if s.n % 2: raise Raised('binascii.Error')
    elif not st.decide(n % 2 == 0):
        raise Raised('binascii.Error')
    if s.items is not None:
        hv = [hexval(zint(c)) for c in s.items]
        if hv and not st.decide(z3.And(*[h >= 0 for h in hv])): raise Raised('binascii.Error')
        return Seq('bytes', None, items=[mk(hv[2 * j] * 16 + hv[2 * j + 1]) for j in range(len(hv) // 2)])
    k = z3.Int(st.fresh_name('q'))
    allhex = z3.ForAll([k], z3.Implies(z3.And(k >= 0, k < n), hexval(s.zat(k)) >= 0))
    if not st.decide(allhex): raise Raised('binascii.Error')
    from . import lang as _L
    return Seq('bytes', n / 2, at=lambda j, s=s: _L.hexval(s.at(mk(zint(j) * 2))) * 16 + _L.hexval(s.at(mk(zint(j) * 2 + 1))))
EXT['binascii.unhexlify'] = _a2b


@ext('time.time')
def _time(I, args, kw):
    """monotone ghost clock"""
    st = I.st
    t = z3.Int(st.fresh_name('clock'))
    prev = st.ghost.get('clock')
    if prev is not None: st.assume(t >= prev)
    else: st.assume(t >= 0)
    st.ghost['clock'] = t
    return ClockV(t)


class ClockV(Opaque):
    """time value: opaque float carrying the ghost clock term"""
    def __init__(self, t):
        Opaque.__init__(self, 'float'); self.t = t


@ext('time.sleep')
def _sleep(I, args, kw): return None


@ext('logging.getLogger')
def _getlogger(I, args, kw): return Opaque('logger')


@ext('functools.partial')
def _partial(I, args, kw):
    return _interp().Partial(args[0], list(args[1:]), kw)


@ext('threading.RLock')
def _rlock(I, args, kw):
    return Opaque('lock', kind='RLock')
EXT['threading.Lock'] = lambda I, a, k: Opaque('lock', kind='Lock')


@ext('collections.OrderedDict')
def _ordereddict(I, args, kw):
    return BUILTINS['dict'].fn(I, args, kw)       # A7: dict keeps insertion order


@ext('traceback.format_exc')
def _format_exc(I, args, kw):
    return Opaque('str')


@ext('six.next')
def _sixnext(I, args, kw): return BUILTINS['next'].fn(I, args, kw)


def ext_call(I, qual, args, kw):
    if qual in I.cfg.ext:
        return I.cfg.ext[qual](I, args, kw)
    if qual in EXT:
        return EXT[qual](I, args, kw)
    base = qual.split('.')[-1]
    from .resolver import BUILTIN_EXC
    if qual in BUILTIN_EXC or base in BUILTIN_EXC or base.endswith('Error') or base.endswith('Exception') or qual in ('socket.timeout', 'socket.error'):
        return _interp().ExcVal(qual if qual in BUILTIN_EXC else base, tuple(args))
    if qual in ('int', 'bool', 'str', 'float', 'list', 'dict', 'bytes', 'tuple', 'set'):
        return BUILTINS[qual].fn(I, args, kw)
    raise Unsupported('call of external %s' % qual)


def opaque_method(I, recv, name, args, kw):
    if recv.what == 'logger':
        return None              # effects of logging dropped; argument expressions were already evaluated
    if recv.what == 'lock':
        h = recv.info.get('on_' + name)
        if h: return h(I, recv)
        if name in ('acquire', 'release', '__enter__', '__exit__'): return None
    h = recv.info.get('methods', {}).get(name)
    if h is not None:
        return h(I, recv, args, kw)
    if recv.what == 'str':
        return Opaque('str')          # any str method on an unknown string yields an unknown string (or list of them)
    raise Unsupported('method %s of opaque %s' % (name, recv.what))


def opaque_call(I, f, args, kw):
    h = f.info.get('call')
    if h is not None:
        return h(I, f, args, kw)
    raise Unsupported('call of opaque %s' % f.what)
