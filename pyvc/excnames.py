"""exception hierarchy table shared by both modes (A8)"""
BUILTIN_EXC = {
    'BaseException': [],
    'Exception': ['BaseException'],
    'ArithmeticError': ['Exception'], 'ZeroDivisionError': ['ArithmeticError'], 'OverflowError': ['ArithmeticError'],
    'LookupError': ['Exception'], 'IndexError': ['LookupError'], 'KeyError': ['LookupError'],
    'ValueError': ['Exception'], 'UnicodeError': ['ValueError'], 'UnicodeDecodeError': ['UnicodeError'],
    'TypeError': ['Exception'], 'AttributeError': ['Exception'], 'NameError': ['Exception'],
    'AssertionError': ['Exception'], 'RuntimeError': ['Exception'], 'NotImplementedError': ['RuntimeError'],
    'StopIteration': ['Exception'], 'OSError': ['Exception'], 'struct.error': ['Exception'], 'binascii.Error': ['ValueError'],
}


def builtin_mro(name):
    out = [name]
    for b in BUILTIN_EXC.get(name, ['Exception'] if name != 'BaseException' else []):
        for x in builtin_mro(b):
            if x not in out:
                out.append(x)
    return out
