"""ids of the known findings that are active for the property being checked (read from the
committed /verif/known-findings.txt by the driver; never written at run time)"""
ACTIVE = set()
