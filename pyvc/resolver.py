"""Static view of /repo: modules, classes, functions, read from the working tree on every run.
Nothing under /repo is imported or executed by CPython; module and class bodies are
*interpreted* by pyvc.interp (concretely) to obtain constants and tables (A10)."""
import ast, os, hashlib

REPO = os.environ.get('PYVC_REPO', '/repo')

BUILTIN_EXC = {
    'BaseException': [],
    'Exception': ['BaseException'],
    'ArithmeticError': ['Exception'], 'ZeroDivisionError': ['ArithmeticError'], 'OverflowError': ['ArithmeticError'],
    'LookupError': ['Exception'], 'IndexError': ['LookupError'], 'KeyError': ['LookupError'],
    'ValueError': ['Exception'], 'UnicodeError': ['ValueError'], 'UnicodeDecodeError': ['UnicodeError'],
    'UnicodeEncodeError': ['UnicodeError'],
    'TypeError': ['Exception'], 'AttributeError': ['Exception'], 'NameError': ['Exception'],
    'AssertionError': ['Exception'], 'RuntimeError': ['Exception'], 'NotImplementedError': ['RuntimeError'],
    'StopIteration': ['Exception'], 'ImportError': ['Exception'],
    'OSError': ['Exception'], 'IOError': ['OSError'], 'EnvironmentError': ['OSError'],
    'socket.error': ['OSError'], 'socket.timeout': ['OSError'], 'TimeoutError': ['OSError'],
    'ConnectionError': ['OSError'], 'ConnectionResetError': ['ConnectionError'], 'BrokenPipeError': ['ConnectionError'],
    'ConnectionRefusedError': ['ConnectionError'], 'ConnectionAbortedError': ['ConnectionError'],
    'ssl.SSLError': ['OSError'],
    'struct.error': ['Exception'],
    'binascii.Error': ['ValueError'],
    'serial.SerialException': ['OSError'], 'SerialException': ['OSError'],
    'asyncio.CancelledError': ['BaseException'],
}
ALIASES = {'IOError': 'OSError', 'EnvironmentError': 'OSError', 'socket.error': 'OSError'}


def _builtin_mro(name):
    out = [name]
    if name in ALIASES:
        out.append(ALIASES[name])
    for b in BUILTIN_EXC.get(name, ['Exception'] if name not in ('BaseException',) else []):
        for x in _builtin_mro(b):
            if x not in out:
                out.append(x)
    return out


def exception_mro(name, payload=None):
    """names of all classes an exception of class `name` is an instance of"""
    if payload is not None and hasattr(payload, 'cls') and hasattr(payload.cls, 'mro_names'):
        return payload.cls.mro_names()
    ci = Repo.get().find_class_by_name(name)
    if ci is not None:
        return ci.mro_names()
    return _builtin_mro(name)


class ExtModule:
    def __init__(self, name):
        self.name = name

    def __repr__(self):
        return 'ExtModule<%s>' % self.name


class ExtName:
    """a name living in a module the engine does not read (stdlib, twisted, serial...)"""
    def __init__(self, qual):
        self.qual = qual

    def __repr__(self):
        return 'Ext<%s>' % self.qual

    def __eq__(self, o):
        return isinstance(o, ExtName) and o.qual == self.qual

    def __hash__(self):
        return hash(self.qual)


class FuncInfo:
    def __init__(self, module, cls, node):
        self.module, self.cls, self.node = module, cls, node
        self.name = node.name
        self.kind = 'function'
        for d in node.decorator_list:
            if isinstance(d, ast.Name) and d.id in ('classmethod', 'staticmethod', 'property'):
                self.kind = d.id
        self.is_async = isinstance(node, ast.AsyncFunctionDef)

    @property
    def qualname(self):
        if self.cls is not None:
            return '%s.%s.%s' % (self.module.name, self.cls.name, self.name)
        return '%s.%s' % (self.module.name, self.name)

    def source_hash(self):
        return hashlib.sha256(ast.dump(self.node).encode()).hexdigest()[:16]

    def __repr__(self):
        return 'Func<%s>' % self.qualname


class ClassInfo:
    def __init__(self, module, node):
        self.module, self.node, self.name = module, node, node.name
        self.methods = {}
        self.ns = None          # class namespace, filled by interp on first use
        self._bases = None
        for n in node.body:
            if isinstance(n, (ast.FunctionDef, ast.AsyncFunctionDef)):
                self.methods[n.name] = FuncInfo(module, self, n)

    @property
    def qualname(self):
        return '%s.%s' % (self.module.name, self.name)

    def bases(self):
        if self._bases is None:
            out = []
            for b in self.node.bases:
                v = self.module.static_lookup(ast.unparse(b))
                out.append(v)
            self._bases = out
        return self._bases

    def mro(self):
        """C3 linearisation restricted to repo classes; external bases are kept as ExtName markers"""
        def merge(seqs):
            res = []
            seqs = [list(s) for s in seqs if s]
            while seqs:
                for s in seqs:
                    cand = s[0]
                    if not any(cand in t[1:] for t in seqs):
                        break
                else:
                    raise TypeError('inconsistent hierarchy for %s' % self.name)
                res.append(cand)
                seqs = [[x for x in t if x is not cand and x != cand] if t[0] is cand or t[0] == cand else t for t in seqs]
                seqs = [t for t in seqs if t]
            return res
        bs = self.bases()
        lins = []
        for b in bs:
            if isinstance(b, ClassInfo):
                lins.append(b.mro())
            else:
                lins.append([b])
        return [self] + merge(lins + [list(bs)])

    def mro_names(self):
        out = []
        for c in self.mro():
            if isinstance(c, ClassInfo):
                out.append(c.name)
            elif isinstance(c, ExtName):
                nm = c.qual
                for x in _builtin_mro(nm if nm in BUILTIN_EXC else nm.split('.')[-1]) if (nm in BUILTIN_EXC or nm.split('.')[-1] in BUILTIN_EXC) else [nm]:
                    if x not in out:
                        out.append(x)
        return out

    def is_subclass_of(self, other):
        if isinstance(other, ClassInfo):
            return any(c is other for c in self.mro())
        if isinstance(other, ExtName):
            return other.qual in self.mro_names() or other.qual.split('.')[-1] in self.mro_names()
        return False

    def find_method(self, name):
        for c in self.mro():
            if isinstance(c, ClassInfo) and name in c.methods:
                return c.methods[name]
        return None

    def lookup(self, name):
        """class attribute through the MRO -> (found, value).  needs ns to be initialised by interp."""
        from . import interp
        for c in self.mro():
            if isinstance(c, ClassInfo):
                ns = interp.class_ns(c)
                if name in ns:
                    return True, ns[name]
        return False, None

    def is_exception(self):
        return 'Exception' in self.mro_names() or 'BaseException' in self.mro_names()

    def __repr__(self):
        return 'Class<%s>' % self.qualname


class ModuleInfo:
    def __init__(self, name, path):
        self.name, self.path = name, path
        self.src = open(path).read()
        self.tree = ast.parse(self.src)
        self.classes, self.funcs, self.imports, self.stars = {}, {}, {}, []
        self.ns = None          # module namespace, filled by interp on first use
        for n in self.tree.body:
            self._scan(n)

    def _scan(self, n):
        if isinstance(n, ast.ClassDef):
            self.classes[n.name] = ClassInfo(self, n)
        elif isinstance(n, (ast.FunctionDef, ast.AsyncFunctionDef)):
            self.funcs[n.name] = FuncInfo(self, None, n)
        elif isinstance(n, ast.ImportFrom) and n.module:
            for a in n.names:
                if a.name == '*':
                    self.stars.append(n.module)
                else:
                    self.imports[a.asname or a.name] = ('from', n.module, a.name)
        elif isinstance(n, ast.Import):
            for a in n.names:
                self.imports[a.asname or a.name.split('.')[0]] = ('mod', a.name if a.asname else a.name.split('.')[0], None)
        elif isinstance(n, (ast.If, ast.Try)):
            for sub in ast.iter_child_nodes(n):
                if isinstance(sub, ast.stmt):
                    self._scan(sub)
            for h in getattr(n, 'handlers', []):
                for sub in h.body:
                    self._scan(sub)

    def static_lookup(self, dotted):
        """resolve a (dotted) name used in a class header / import to ClassInfo / FuncInfo / ExtName"""
        parts = dotted.split('.')
        head = parts[0]
        repo = Repo.get()
        if head in self.classes and len(parts) == 1:
            return self.classes[head]
        if head in self.funcs and len(parts) == 1:
            return self.funcs[head]
        if head in self.imports:
            kind, mod, nm = self.imports[head]
            if kind == 'from':
                m = repo.module(mod)
                if m is not None:
                    sub = repo.module(mod + '.' + nm)
                    if sub is not None and nm not in m.classes and nm not in m.funcs:
                        v = sub
                        for p in parts[1:]:
                            v = v.static_lookup(p) if isinstance(v, ModuleInfo) else ExtName(dotted)
                        return v
                    r = m.static_lookup(nm)
                    if len(parts) == 1:
                        return r
                    return ExtName(dotted)
                return ExtName('.'.join([mod, nm] + parts[1:]))
            else:
                m = repo.module(mod)
                if m is not None and len(parts) > 1:
                    return m.static_lookup('.'.join(parts[1:]))
                return ExtName('.'.join([mod] + parts[1:]))
        for s in self.stars:
            m = repo.module(s)
            if m is not None:
                r = m.static_lookup(dotted)
                if not isinstance(r, ExtName):
                    return r
        return ExtName(dotted)


class Repo:
    _inst = None

    @staticmethod
    def get():
        if Repo._inst is None:
            Repo._inst = Repo()
        return Repo._inst

    @staticmethod
    def reset():
        Repo._inst = None

    def __init__(self, root=None):
        self.root = root or REPO
        self.mods = {}

    def module(self, name):
        if not (name == 'pymodbus' or name.startswith('pymodbus.')):
            return None
        if name in self.mods:
            return self.mods[name]
        base = os.path.join(self.root, *name.split('.'))
        path = None
        if os.path.isfile(base + '.py'):
            path = base + '.py'
        elif os.path.isfile(os.path.join(base, '__init__.py')):
            path = os.path.join(base, '__init__.py')
        m = ModuleInfo(name, path) if path else None
        self.mods[name] = m
        return m

    def func(self, qualname):
        """'pymodbus.mod.Class.meth' or 'pymodbus.mod.func' -> FuncInfo"""
        parts = qualname.split('.')
        for cut in range(len(parts) - 1, 0, -1):
            m = self.module('.'.join(parts[:cut]))
            if m is not None:
                rest = parts[cut:]
                if len(rest) == 1:
                    return m.funcs.get(rest[0])
                if len(rest) == 2 and rest[0] in m.classes:
                    return m.classes[rest[0]].methods.get(rest[1])
                return None
        return None

    def cls(self, qualname):
        mod, _, name = qualname.rpartition('.')
        m = self.module(mod)
        if m is None:
            return None
        return m.classes.get(name)

    def find_class_by_name(self, name):
        for m in list(self.mods.values()):
            if m is not None and name in m.classes:
                return m.classes[name]
        m = self.module('pymodbus.exceptions')
        if m is not None and name in m.classes:
            return m.classes[name]
        return None
