"""AST interpreter over the pyvc value model: the verified text is the function body as it is
on disk in /repo (DESIGN 2.1/2.10).  Forks only through State.decide; calls are replaced by
callee contracts when the unit's configuration supplies one, inlined when the callee is in
/repo and has no contract, modelled when they are library functions, havoc'd otherwise."""
import ast, itertools
import z3
from . import values as V
from .values import SInt, SBool, Seq, SMap, Obj, Opaque, mk, zint, zbool, Unsupported, to_seq
from .engine import Raised, PathAbort, LoopCutEnd
from .resolver import Repo, ModuleInfo, ClassInfo, FuncInfo, ExtName, ExtModule, BUILTIN_EXC

MAX_UNROLL = 300


class _Return(Exception):
    def __init__(self, v): self.v = v
class _Break(Exception): pass
class _Continue(Exception): pass


class BoundMethod:
    def __init__(self, obj, func):
        self.obj, self.func = obj, func
    def __repr__(self): return 'Bound<%r.%s>' % (self.obj, self.func.name)


class NativeMethod:
    """method of a native python container / Seq / SMap / Opaque value"""
    def __init__(self, recv, name):
        self.recv, self.name = recv, name
    def __repr__(self): return 'Native<%s.%s>' % (type(self.recv).__name__, self.name)


class Closure:
    def __init__(self, node, frame):
        self.node, self.frame = node, frame


class PropertyV:
    def __init__(self, getter, setter=None):
        self.getter, self.setter = getter, setter


class Partial:
    def __init__(self, f, args, kw):
        self.f, self.args, self.kw = f, args, kw


class ExcVal:
    """instance of a builtin exception class"""
    def __init__(self, cls, args=()):
        self.cls, self.args = cls, args
    def __repr__(self): return 'Exc<%s>' % self.cls


class SuperV:
    def __init__(self, cls, obj):
        self.cls, self.obj = cls, obj


class Frame:
    def __init__(self, module, cls, func, env, parent=None):
        self.module, self.cls, self.func, self.env, self.parent = module, cls, func, env, parent
        self.exc = None      # exception being handled (for bare raise)
        self.loop_ord = 0


class Config:
    """per-unit configuration of the interpreter"""
    def __init__(self):
        self.contracts = {}     # qualname -> contract object with .apply(interp, recv, args, kwargs)
        self.loops = {}         # (qualname, ordinal) -> loop annotation object
        self.no_inline = set()  # qualnames that must not be inlined (unknown call instead)
        self.unroll = {}        # (qualname, ordinal) -> max iterations for bounded unrolling (bounded mode only)
        self.hooks = {}         # qualname -> python callable(interp, recv, args, kw) run *before* the call (ghost updates)
        self.ext = {}           # external dotted name -> model callable(interp, args, kw)
        self.opaque_attr = None # callable(interp, opaque, name) -> value for attribute reads on Opaque values
        self.callbacks = {}     # name -> callable for python-level callables passed into the program


_MODNS_BUSY = set()
TOUCHED = []
# modules whose module-level / class-level state is never mutated after initialisation (kept across paths)
PURE_MODULES = ('pymodbus.utilities', 'pymodbus.compat', 'pymodbus.constants', 'pymodbus.exceptions')


def reset_program_state():
    """module and class namespaces hold mutable program state (class-level dicts, module-level singletons such as
    diag_message._MCB): every path starts from freshly initialised modules, as a fresh process would"""
    global TOUCHED
    keep = []
    for x in TOUCHED:
        mod = x if isinstance(x, ModuleInfo) else x.module
        if mod.name in PURE_MODULES:
            keep.append(x)
        else:
            x.ns = None
    TOUCHED = keep


def module_ns(m, interp=None):
    """module namespace by interpreting the module body (concretely) - A10"""
    if m.ns is not None:
        return m.ns
    m.ns = {'__name__': m.name}
    TOUCHED.append(m)
    if m.name == 'pymodbus.compat':
        from . import libmodels
        m.ns.update(libmodels.COMPAT_NS)
        return m.ns
    it = Interp(None, Config())
    fr = Frame(m, None, None, m.ns)
    for s in m.tree.body:
        try:
            it.stmt(s, fr)
        except (Unsupported, Raised, PathAbort, AttributeError, TypeError, KeyError) as e:
            for n in ast.walk(s):
                if isinstance(n, ast.Name) and isinstance(n.ctx, ast.Store) and n.id not in m.ns:
                    m.ns[n.id] = Opaque('module-level:%s' % n.id, reason=str(e))
    return m.ns


def class_ns(c):
    if c.ns is not None:
        return c.ns
    c.ns = {}
    TOUCHED.append(c)
    it = Interp(None, Config())
    fr = Frame(c.module, c, None, c.ns)
    fr.is_class_body = True
    for s in c.node.body:
        if isinstance(s, (ast.FunctionDef, ast.AsyncFunctionDef)):
            fi = c.methods[s.name]
            key = mangle(s.name, c)          # private methods (__name) are stored under their mangled name, as CPython does
            if fi.kind == 'property':
                c.ns[key] = PropertyV(fi)
            else:
                c.ns[key] = fi
            continue
        try:
            it.stmt(s, fr)
        except (Unsupported, Raised, PathAbort) as e:
            for n in ast.walk(s):
                if isinstance(n, ast.Name) and isinstance(n.ctx, ast.Store) and n.id not in c.ns:
                    c.ns[n.id] = Opaque('class-level:%s' % n.id, reason=str(e))
    return c.ns


def mangle(name, cls):
    if cls is not None and name.startswith('__') and not name.endswith('__'):
        return '_%s%s' % (cls.name.lstrip('_'), name)
    return name


SIMPLE = (ast.Name, ast.Constant, ast.Attribute, ast.Subscript, ast.BinOp, ast.UnaryOp, ast.Compare, ast.BoolOp)


def is_simple(e):
    """expression whose evaluation cannot call user code (safe to evaluate eagerly in and/or)"""
    for n in ast.walk(e):
        if isinstance(n, (ast.Call, ast.Await, ast.Yield, ast.YieldFrom, ast.NamedExpr, ast.Lambda, ast.ListComp, ast.GeneratorExp, ast.DictComp, ast.SetComp)):
            return False
    return True


class Interp:
    def __init__(self, st, cfg):
        self.st, self.cfg = st, cfg
        self.depth = 0

    # ------------------------------------------------------------------ names
    def lookup(self, name, fr):
        f = fr
        while f is not None:
            if name in f.env and not getattr(f, 'is_class_body', False) or (f is fr and name in f.env):
                return f.env[name]
            f = f.parent
        ns = module_ns(fr.module)
        if name in ns:
            return ns[name]
        from . import libmodels
        if name in libmodels.BUILTINS:
            return libmodels.BUILTINS[name]
        if name in BUILTIN_EXC:
            return ExtName(name)
        raise Raised('NameError', where=name)

    # ------------------------------------------------------------------ truthiness
    def truth(self, v):
        """python truthiness -> bool or SBool"""
        if isinstance(v, (bool, SBool)):
            return v
        if isinstance(v, Obj):
            m = v.cls.find_method('__bool__') or v.cls.find_method('__len__')
            if m is None:
                return True
            r = self.call_function(m, [v], {})
            return self.truth(r)
        if isinstance(v, Opaque):
            if v.what.startswith('bool:') or v.info.get('truth') is not None:
                return v.info['truth']
            return True if v.info.get('truthy', True) else False
        return mk(zbool(v))

    def decide(self, v):
        t = self.truth(v)
        if isinstance(t, bool):
            return t
        return self.st.decide(t)

    # ------------------------------------------------------------------ expressions
    def ev(self, e, fr):
        m = getattr(self, 'e_' + type(e).__name__, None)
        if m is None:
            raise Unsupported('expression %s' % type(e).__name__)
        return m(e, fr)

    def e_Constant(self, e, fr):
        return e.value

    def e_Name(self, e, fr):
        return self.lookup(mangle(e.id, fr.cls), fr)

    def e_JoinedStr(self, e, fr):
        for v in e.values:
            if isinstance(v, ast.FormattedValue):
                self.ev(v.value, fr)
        return Opaque('str')

    def e_Tuple(self, e, fr):
        out = []
        for x in e.elts:
            if isinstance(x, ast.Starred):
                out.extend(self.iterate(self.ev(x.value, fr)))
            else:
                out.append(self.ev(x, fr))
        return tuple(out)

    def e_List(self, e, fr):
        return list(self.e_Tuple(e, fr))

    def e_Set(self, e, fr):
        return set(self.e_Tuple(e, fr))

    def e_Dict(self, e, fr):
        d = {}
        for k, v in zip(e.keys, e.values):
            if k is None:
                d.update(self.ev(v, fr))
            else:
                d[self.ev(k, fr)] = self.ev(v, fr)
        return d

    def e_IfExp(self, e, fr):
        c = self.truth(self.ev(e.test, fr))
        if isinstance(c, bool):
            return self.ev(e.body if c else e.orelse, fr)
        if is_simple(e.body) and is_simple(e.orelse):
            try:
                a = self.ev_noraise(e.body, fr)
                b = self.ev_noraise(e.orelse, fr)
                if V._isnum(a) and V._isnum(b):
                    if isinstance(a, (bool, SBool)) and isinstance(b, (bool, SBool)):
                        return mk(z3.If(zbool(c), zbool(a), zbool(b)))
                    return mk(z3.If(zbool(c), zint(a), zint(b)))
            except _WouldFork:
                pass
        return self.ev(e.body if self.st.decide(c) else e.orelse, fr)

    def ev_noraise(self, e, fr, forced=False):
        """evaluate an expression; abort (raise _WouldFork) if it would fork or raise.
        forced=True: a condition decided by the current solver context counts as not forking."""
        st = self.st
        def nofork(c):
            if isinstance(c, bool):
                return c
            cc = V.ssimplify(zbool(c))
            if z3.is_true(cc): return True
            if z3.is_false(cc): return False
            if forced:
                ft, ff = st._feasible(cc), st._feasible(z3.Not(cc))
                if ft and not ff: return True
                if ff and not ft: return False
            raise _WouldFork()
        prev = st.__dict__.get('decide')
        st.decide = nofork
        try:
            return self.ev(e, fr)
        except Raised:
            raise _WouldFork()
        finally:
            if prev is None:
                del st.decide
            else:
                st.decide = prev

    def e_BoolOp(self, e, fr):
        is_and = isinstance(e.op, ast.And)
        vals = e.values
        v = self.ev(vals[0], fr)
        for idx in range(1, len(vals)):
            t = self.truth(v)
            if isinstance(t, bool):
                if t != is_and:
                    return v
                v = self.ev(vals[idx], fr)
                continue
            # symbolic left operand: combine without forking only when every operand is a boolean
            # (`a or b` yields an operand, not its truth value)
            rest = vals[idx:]
            if isinstance(v, (bool, SBool)) and all(is_simple(x) for x in rest):
                try:
                    acc = zbool(t)
                    parts = [acc]
                    guard = acc if is_and else z3.Not(acc)
                    for x in rest:
                        self.st.solver.push(); self.st.solver.add(guard)
                        try:
                            w = self.ev_noraise(x, fr)
                        finally:
                            self.st.solver.pop()
                        if not isinstance(w, (bool, SBool)):
                            raise _WouldFork()
                        wz = zbool(w)
                        parts.append(wz)
                        guard = z3.And(guard, wz) if is_and else z3.And(guard, z3.Not(wz))
                    return mk(z3.And(*parts) if is_and else z3.Or(*parts))
                except _WouldFork:
                    pass
            if self.st.decide(t) != is_and:
                return v
            v = self.ev(vals[idx], fr)
        return v

    def e_UnaryOp(self, e, fr):
        v = self.ev(e.operand, fr)
        if isinstance(e.op, ast.Not):
            t = self.truth(v)
            return (not t) if isinstance(t, bool) else mk(z3.Not(zbool(t)))
        if isinstance(v, (int, float)) and not isinstance(v, bool) or isinstance(v, bool):
            if isinstance(e.op, ast.USub): return -v
            if isinstance(e.op, ast.UAdd): return +v
            if isinstance(e.op, ast.Invert): return ~v
        if isinstance(e.op, ast.USub): return -v
        if isinstance(e.op, ast.UAdd): return v
        if isinstance(e.op, ast.Invert): return ~v
        raise Unsupported('unary op')

    def e_BinOp(self, e, fr):
        a = self.ev(e.left, fr)
        b = self.ev(e.right, fr)
        return self.binop(type(e.op), a, b, fr)

    def binop(self, op, a, b, fr=None):
        import operator as o
        # sequences
        if op is ast.Add and (isinstance(a, (Seq, bytes, list, tuple)) or isinstance(b, Seq)):
            if isinstance(a, tuple) and isinstance(b, tuple): return a + b
            if isinstance(a, list) and isinstance(b, list): return a + b
            if isinstance(a, bytes) and isinstance(b, bytes): return a + b
            if isinstance(a, (Seq, bytes, list)) and isinstance(b, (Seq, bytes, list)):
                ka = 'bytes' if isinstance(a, bytes) or (isinstance(a, Seq) and a.is_bytes()) else 'list'
                kb = 'bytes' if isinstance(b, bytes) or (isinstance(b, Seq) and b.is_bytes()) else 'list'
                if ka != kb:
                    raise Raised('TypeError')
                return V.seq_concat(a, b)
            raise Raised('TypeError')
        if op is ast.Mult and isinstance(a, (list, bytes, str, tuple)) and isinstance(b, int):
            return a * b
        if op is ast.Mult and isinstance(b, (list, bytes, str, tuple)) and isinstance(a, int):
            return a * b
        if op is ast.Mult and isinstance(a, bytes) and isinstance(b, SInt) and len(a) == 1:
            nn = mk(z3.If(zint(b) < 0, z3.IntVal(0), zint(b)))
            return Seq('bytes', zint(nn) if not isinstance(nn, int) else nn, at=lambda k, c=a[0]: c)
        if op is ast.Add and isinstance(a, str) and isinstance(b, NumStr):
            return FmtS(a, b.n, '')
        if op is ast.Add and isinstance(a, FmtS) and isinstance(b, str):
            return FmtS(a.prefix, a.n, a.suffix + b)
        if op is ast.Mult and isinstance(a, str) and isinstance(b, SInt) and len(a) == 1:
            return RepStr('', a, b)
        if op is ast.Add and isinstance(a, str) and isinstance(b, RepStr):
            return RepStr(a + b.prefix, b.ch, b.n)
        if op is ast.Mult and isinstance(a, list) and isinstance(b, SInt):
            if len(a) == 1:
                n = b
                self.st.assume(zint(n) >= 0) if False else None
                item = a[0]
                nn = mk(z3.If(zint(n) < 0, z3.IntVal(0), zint(n)))
                elem = 'bool' if isinstance(item, (bool, SBool)) else 'int'
                return Seq('list', nn if not isinstance(nn, int) else nn, at=lambda k, item=item: item, elem=elem)
            raise Unsupported('list * symbolic')
        if op is ast.Mod and isinstance(a, (str, Opaque)) and (isinstance(a, str) or a.what == 'str'):
            return self.strformat(a, b)
        if isinstance(a, str) or isinstance(b, str):
            if op is ast.Add and isinstance(a, str) and isinstance(b, str): return a + b
            if op is ast.Add and (isinstance(a, Opaque) or isinstance(b, Opaque)): return Opaque('str')
            if op is ast.Add: raise Raised('TypeError')
        if isinstance(a, Opaque) and a.what == 'str' and op is ast.Add:
            if isinstance(b, (str, Opaque)): return Opaque('str')
            raise Raised('TypeError')
        if isinstance(a, float) or isinstance(b, float):
            if isinstance(a, (int, float)) and isinstance(b, (int, float)):
                try:
                    return {ast.Add: o.add, ast.Sub: o.sub, ast.Mult: o.mul, ast.Div: o.truediv, ast.FloorDiv: o.floordiv, ast.Mod: o.mod, ast.Pow: o.pow}[op](a, b)
                except ZeroDivisionError:
                    raise Raised('ZeroDivisionError')
            return Opaque('float')
        if isinstance(a, Opaque) or isinstance(b, Opaque):
            if (isinstance(a, Opaque) and a.what == 'float') or (isinstance(b, Opaque) and b.what == 'float'):
                return Opaque('float')
            raise Unsupported('binary operator on opaque value %r %r' % (a, b))
        if a is None or b is None:
            raise Raised('TypeError')
        if isinstance(a, set) and isinstance(b, set):
            return {ast.BitOr: o.or_, ast.BitAnd: o.and_, ast.Sub: o.sub, ast.BitXor: o.xor}[op](a, b)
        if not (V._isnum(a) and V._isnum(b)):
            raise Raised('TypeError')
        if op is ast.Div:
            if isinstance(a, int) and isinstance(b, int):
                if b == 0: raise Raised('ZeroDivisionError')
                return a / b
            return Opaque('float')
        if op is ast.Pow:
            if isinstance(a, int) and isinstance(b, int): return a ** b
            raise Unsupported('symbolic **')
        if isinstance(a, int) and isinstance(b, int):
            try:
                return {ast.Add: o.add, ast.Sub: o.sub, ast.Mult: o.mul, ast.FloorDiv: o.floordiv, ast.Mod: o.mod,
                        ast.BitAnd: o.and_, ast.BitOr: o.or_, ast.BitXor: o.xor, ast.LShift: o.lshift, ast.RShift: o.rshift}[op](a, b)
            except ZeroDivisionError:
                raise Raised('ZeroDivisionError')
            except ValueError:
                raise Raised('ValueError')
        f = {ast.Add: o.add, ast.Sub: o.sub, ast.Mult: o.mul, ast.FloorDiv: o.floordiv, ast.Mod: o.mod,
             ast.BitAnd: o.and_, ast.BitOr: o.or_, ast.BitXor: o.xor, ast.LShift: o.lshift, ast.RShift: o.rshift}.get(op)
        if f is None:
            raise Unsupported('operator %s' % op.__name__)
        return f(a, b)

    def strformat(self, fmt, args):
        if isinstance(fmt, str):
            tup = args if isinstance(args, tuple) else (args,)
            if all(isinstance(x, (int, str, float, bytes, type(None))) and not isinstance(x, (SInt, SBool)) for x in tup) and not isinstance(args, dict):
                try:
                    return fmt % args
                except TypeError:
                    raise Raised('TypeError')
                except ValueError:
                    raise Raised('ValueError')
            import re
            # '%02x%02x' % (ints): hex text of byte values (ASCII framer) -> symbolic text
            if re.fullmatch(r'(%02[xX])+', fmt) and not isinstance(args, dict) and all(V._isnum(x) for x in tup) and len(tup) == fmt.count('%'):
                codes = []
                ok = True
                for spec_, x in zip(re.findall(r'%02([xX])', fmt), tup):
                    xz = zint(x)
                    if not self.st.decide(z3.And(xz >= 0, xz < 256)):
                        ok = False
                        break
                    base = 87 if spec_ == 'x' else 55
                    for nib in (xz / 16, xz % 16):
                        codes.append(mk(z3.If(nib < 10, nib + 48, nib + base)))
                if ok:
                    return Seq('str', None, items=codes)
                return Opaque('str')
            # symbolic / object arguments: check arity and %d-with-None statically
            specs = re.findall(r'%(?:\([^)]*\))?[#0\- +]*(?:\*|\d+)?(?:\.(?:\*|\d+))?[hlL]?([diouxXeEfFgGcrsa%])', fmt)
            specs = [s for s in specs if s != '%']
            if not isinstance(args, dict) and not isinstance(args, Opaque):
                if len(specs) != len(tup):
                    raise Raised('TypeError')
                for s, x in zip(specs, tup):
                    if s in 'diouxXeEfFgG' and (x is None or isinstance(x, (str, bytes, Obj, list, tuple, dict, Seq))):
                        raise Raised('TypeError')
        return Opaque('str')

    def e_Compare(self, e, fr):
        left = self.ev(e.left, fr)
        parts = []
        for idx, (op, rr) in enumerate(zip(e.ops, e.comparators)):
            if parts and not is_simple(rr):
                # later comparators are evaluated only if the chain is still true
                c = mk(z3.And(*[zbool(p) for p in parts]))
                if not self.st.decide(c):
                    return False
                parts = []
            right = self.ev(rr, fr)
            c = self.compare(op, left, right)
            if c is False:
                return False
            if c is not True:
                parts.append(c)
            left = right
        if not parts:
            return True
        if len(parts) == 1:
            return parts[0]
        return mk(z3.And(*[zbool(p) for p in parts]))

    def compare(self, op, a, b):
        t = type(op)
        if t in (ast.Is, ast.IsNot):
            if isinstance(a, (SInt, SBool)) or isinstance(b, (SInt, SBool)):
                if a is None or b is None:
                    r = False
                else:
                    raise Unsupported('identity test on symbolic value')
            elif isinstance(a, bool) or isinstance(b, bool) or a is None or b is None:
                r = a is b
            else:
                r = a is b
            return r if t is ast.Is else not r
        if t in (ast.In, ast.NotIn):
            r = self.contains(b, a)
            if t is ast.In:
                return r
            return (not r) if isinstance(r, bool) else mk(z3.Not(zbool(r)))
        name = {ast.Eq: '==', ast.NotEq: '!=', ast.Lt: '<', ast.LtE: '<=', ast.Gt: '>', ast.GtE: '>='}[t]
        if V._isnum(a) and V._isnum(b):
            return V._cmp(name, a, b)
        if isinstance(a, float) or isinstance(b, float):
            if isinstance(a, (int, float)) and isinstance(b, (int, float)):
                import operator as o
                return {'==': o.eq, '!=': o.ne, '<': o.lt, '<=': o.le, '>': o.gt, '>=': o.ge}[name](a, b)
        if isinstance(a, Opaque) or isinstance(b, Opaque):
            if name in ('==', '!=') and (a is None or b is None):
                return name == '!='
            return mk(z3.Bool(self.st.fresh_name('opaque_cmp')))
        if name in ('==', '!='):
            r = self.equal(a, b)
            if name == '==':
                return r
            return (not r) if isinstance(r, bool) else mk(z3.Not(zbool(r)))
        if isinstance(a, (str, bytes, tuple, list)) and type(a) is type(b):
            if isinstance(a, (tuple, list)) and any(V.is_sym(x) for x in list(a) + list(b)):
                # lexicographic comparison of tuples of numbers
                return self.lexcmp(name, list(a), list(b))
            import operator as o
            return {'<': o.lt, '<=': o.le, '>': o.gt, '>=': o.ge}[name](a, b)
        raise Raised('TypeError')

    def lexcmp(self, name, a, b):
        if not a or not b:
            import operator as o
            return {'<': o.lt, '<=': o.le, '>': o.gt, '>=': o.ge}[name](len(a), len(b))
        x, y = zint(a[0]), zint(b[0])
        rest = self.lexcmp(name, a[1:], b[1:])
        strict = {'<': x < y, '<=': x < y, '>': x > y, '>=': x > y}[name]
        return mk(z3.Or(strict, z3.And(x == y, zbool(rest))))

    def equal(self, a, b):
        if V._isnum(a) and V._isnum(b):
            return V._cmp('==', a, b)
        if a is None or b is None:
            return a is b
        if isinstance(a, (Seq, bytes)) and isinstance(b, (Seq, bytes)):
            ka = 'bytes' if isinstance(a, bytes) else a.kind
            kb = 'bytes' if isinstance(b, bytes) else b.kind
            if ka != kb: return False
            return V.seq_eq(a, b)
        if isinstance(a, (Seq, list)) and isinstance(b, (Seq, list)):
            if isinstance(a, Seq) and a.kind != 'list' or isinstance(b, Seq) and b.kind != 'list':
                return False
            if isinstance(a, list) and isinstance(b, list):
                return self._eq_items(a, b)
            return V.seq_eq(a, b)
        if isinstance(a, tuple) and isinstance(b, tuple):
            return self._eq_items(a, b)
        if isinstance(a, (str, bytes, float, dict, set, frozenset)) or isinstance(b, (str, bytes, float, dict, set, frozenset)):
            if isinstance(a, dict) and isinstance(b, dict):
                if set(a.keys()) != set(b.keys()): return False
                ks = list(a.keys())
                return self._eq_items([a[k] for k in ks], [b[k] for k in ks])
            if V.is_sym(a) or V.is_sym(b): return False
            return a == b
        if isinstance(a, Obj) and isinstance(b, Obj):
            m = a.cls.find_method('__eq__')
            if m is not None:
                return self.truth(self.call_function(m, [a, b], {}))
            return a is b
        if isinstance(a, (ClassInfo, FuncInfo, ExtName)) or isinstance(b, (ClassInfo, FuncInfo, ExtName)):
            return a is b or (isinstance(a, ExtName) and isinstance(b, ExtName) and a == b)
        if type(a) is not type(b):
            return False
        return a is b

    def _eq_items(self, a, b):
        if len(a) != len(b): return False
        cs = []
        for x, y in zip(a, b):
            c = self.equal(x, y)
            if c is False: return False
            if c is not True: cs.append(zbool(c))
        return mk(z3.And(*cs)) if cs else True

    def contains(self, cont, item):
        if isinstance(cont, SMap):
            return cont.has(item)
        if isinstance(cont, RangeV):
            if cont.concrete() and isinstance(item, int):
                return item in range(cont.lo, cont.hi, cont.step)
            if not V._isnum(item):
                return False
            x, lo, hi = zint(item), zint(cont.lo), zint(cont.hi)
            if cont.step == 1:
                return mk(z3.And(x >= lo, x < hi))
            if cont.step > 0:
                return mk(z3.And(x >= lo, x < hi, (x - lo) % cont.step == 0))
            raise Unsupported('membership in a descending range')
        if isinstance(cont, dict):
            cont = list(cont.keys())
        if isinstance(cont, IterV):                      # d.keys() / d.values() of a dict with a concrete number of entries
            cont = list(cont.items)
        if type(cont).__name__ == 'KeysView':            # keys of a symbolic map
            return cont.m.has(item)
        if isinstance(cont, (list, tuple, set, frozenset)):
            cs = []
            for x in cont:
                c = self.equal(item, x)
                if c is True: return True
                if c is not False: cs.append(zbool(c))
            return mk(z3.Or(*cs)) if cs else False
        if isinstance(cont, str):
            if isinstance(item, str): return item in cont
            raise Raised('TypeError')
        if isinstance(cont, bytes) and isinstance(item, (int, bytes)) and not V.is_sym(item):
            return item in cont
        if isinstance(cont, (Seq, bytes)):
            s = to_seq(cont)
            if isinstance(item, (Seq, bytes)):
                from . import libmodels
                r = libmodels.seq_find(self, s, to_seq(item), 0)
                return r >= 0
            if s.items is not None:
                return self.contains(list(s.items), item)
            k = z3.Int(self.st.fresh_name('q'))
            return mk(z3.Exists([k], z3.And(k >= 0, k < zint(s.n), s.zat(k) == (zbool(item) if s.elem == 'bool' else zint(item)))))
        if isinstance(cont, Obj):
            m = cont.cls.find_method('__contains__')
            if m is not None:
                return self.truth(self.invoke(m, [cont, item], {}))
        if isinstance(cont, Opaque):
            return mk(z3.Bool(self.st.fresh_name('opaque_in')))
        raise Raised('TypeError')

    # -- attribute
    def e_Attribute(self, e, fr):
        base = self.ev(e.value, fr)
        return self.getattr(base, mangle(e.attr, fr.cls), fr)

    def getattr(self, base, name, fr=None):
        if isinstance(base, Obj):
            if name in base.fields:
                return base.fields[name]
            if name == '__class__':
                return base.cls
            if name == '__dict__':
                return base.fields
            found, v = base.cls.lookup(name)
            if found:
                if isinstance(v, FuncInfo):
                    if v.kind == 'staticmethod': return v
                    if v.kind == 'classmethod': return BoundMethod(base.cls, v)
                    return BoundMethod(base, v)
                if isinstance(v, PropertyV):
                    return self.call_value(v.getter, [base], {})
                return v
            ext = self._ext_base_attr(base, name)
            if ext is not None:
                return ext
            ga = base.cls.find_method('__getattr__')
            if ga is not None:
                return self.call_function(ga, [base, name], {})
            raise Raised('AttributeError', where='%s.%s' % (base.cls.name, name))
        if isinstance(base, ClassInfo):
            if name == '__name__': return base.name
            if name == '__dict__':
                return dict(class_ns(base))
            found, v = base.lookup(name)
            if found:
                if isinstance(v, FuncInfo) and v.kind == 'classmethod':
                    return BoundMethod(base, v)
                return v
            raise Raised('AttributeError', where='%s.%s' % (base.name, name))
        if isinstance(base, ModuleInfo):
            ns = module_ns(base)
            if name in ns: return ns[name]
            sub = Repo.get().module(base.name + '.' + name)
            if sub is not None: return sub
            raise Raised('AttributeError', where=name)
        if isinstance(base, ExtModule):
            return ExtName(base.name + '.' + name)
        if isinstance(base, ExtName):
            return ExtName(base.qual + '.' + name)
        if isinstance(base, SuperV):
            mro = base.obj.cls.mro() if isinstance(base.obj, Obj) else base.obj.mro()
            idx = [i for i, c in enumerate(mro) if c is base.cls]
            for c in mro[idx[0] + 1:] if idx else []:
                if isinstance(c, ClassInfo) and name in c.methods:
                    return BoundMethod(base.obj, c.methods[name])
            return NativeMethod(base, name)
        if isinstance(base, BoundMethod) and name == '__func__':
            return base.func
        if isinstance(base, FuncInfo) and name == '__name__':
            return base.name
        if isinstance(base, ExcVal):
            if name == 'args': return base.args
            if name == 'errno' or name == 'strerror': return Opaque(name)
            return NativeMethod(base, name)
        if isinstance(base, Opaque):
            if name in base.info.get('attrs_set', {}):
                return base.info['attrs_set'][name]
            if self.cfg.opaque_attr is not None:
                r = self.cfg.opaque_attr(self, base, name)
                if r is not NotImplemented:
                    return r
            return NativeMethod(base, name)
        from . import libmodels as _lm
        if isinstance(base, (_lm.SymRangeSet, _lm.SymSet, _lm.KeysView, _lm.SymKeySet, _lm.MapItems, _lm.FirstOf, IterV, RangeV)):
            return NativeMethod(base, name)
        if isinstance(base, (Seq, SMap, dict, list, tuple, str, bytes, set, frozenset, int, float)) or V.is_sym(base):
            if isinstance(base, (int, SInt, SBool)) and name == '__class__':
                return ExtName('bool' if isinstance(base, (bool, SBool)) else 'int')
            if name == '__class__':
                return ExtName(type(base).__name__ if not isinstance(base, Seq) else base.kind)
            return NativeMethod(base, name)
        if base is None:
            raise Raised('AttributeError', where='None.%s' % name)
        if isinstance(base, (Closure, Partial, BoundMethod, FuncInfo)):
            raise Raised('AttributeError', where=name)
        raise Unsupported('attribute %s of %r' % (name, base))

    def _ext_base_attr(self, obj, name):
        """attribute provided by an external base class (socketserver handler, twisted protocol...)"""
        for c in obj.cls.mro():
            if isinstance(c, ExtName):
                key = c.qual + '.' + name
                if key in self.cfg.ext or ('*.' + name) in self.cfg.ext:
                    return ExtName(key)
        return None

    def hasattr(self, base, name):
        if isinstance(base, Obj):
            if name in base.fields: return True
            found, _ = base.cls.lookup(name)
            if found: return True
            if name in ('__class__', '__dict__'): return True
            return False
        if isinstance(base, ClassInfo):
            found, _ = base.lookup(name)
            return found
        if isinstance(base, (Seq, list, tuple, dict, set, str, bytes)):
            if name == '__iter__': return True
            if name == '__call__': return False
            return hasattr(base if not isinstance(base, Seq) else ([] if base.kind == 'list' else b''), name)
        if isinstance(base, (Closure, FuncInfo, BoundMethod, Partial)):
            return name == '__call__'
        if base is None or V._isnum(base) or isinstance(base, float):
            return hasattr(0 if base is not None else None, name)
        if isinstance(base, Opaque):
            if 'attrs' in base.info:
                return name in base.info['attrs']
            raise Unsupported('hasattr on opaque value')
        raise Unsupported('hasattr(%r, %s)' % (base, name))

    def setattr(self, base, name, value):
        if isinstance(base, Obj):
            if name == '__class__':
                object.__setattr__(base, 'cls', value)     # A5: re-typing
                return
            found, v = base.cls.lookup(name)
            if found and isinstance(v, PropertyV):
                if v.setter is None: raise Raised('AttributeError')
                self.call_value(v.setter, [base, value], {})
                return
            base.fields[name] = value
            return
        if isinstance(base, ClassInfo):
            class_ns(base)[name] = value
            return
        if isinstance(base, Opaque):
            base.info.setdefault('attrs_set', {})[name] = value
            return
        raise Unsupported('attribute store on %r' % (base,))

    # -- subscript
    def e_Subscript(self, e, fr):
        base = self.ev(e.value, fr)
        if isinstance(e.slice, ast.Slice):
            lo = self.ev(e.slice.lower, fr) if e.slice.lower else None
            hi = self.ev(e.slice.upper, fr) if e.slice.upper else None
            step = self.ev(e.slice.step, fr) if e.slice.step else None
            return self.getslice(base, lo, hi, step)
        idx = self.ev(e.slice, fr)
        return self.getitem(base, idx)

    def getslice(self, base, lo, hi, step=None):
        if step is not None:
            if isinstance(base, (list, tuple, bytes, str)) and all(x is None or isinstance(x, int) for x in (lo, hi, step)):
                return base[lo:hi:step]
            if isinstance(base, Seq) and base.items is not None and all(x is None or isinstance(x, int) for x in (lo, hi, step)):
                return Seq(base.kind, None, items=base.items[lo:hi:step], elem=base.elem)
            raise Unsupported('extended slice on symbolic value')
        if isinstance(base, (list, tuple, str, bytes)) and (lo is None or isinstance(lo, int)) and (hi is None or isinstance(hi, int)):
            return base[lo:hi]
        if isinstance(base, (Seq, bytes, list)):
            # a symbolic bound whose sign is not known selects between python's two indexing regimes: split the path
            # there (each side then has simple linear terms) instead of carrying nested if-then-else terms
            for b in (lo, hi):
                if isinstance(b, SInt) and self.st is not None:
                    bz = zint(b)
                    if not self.st.quick(bz >= 0) and not self.st.quick(bz < 0):
                        self.st.decide(bz >= 0)
                    nz = zint(to_seq(base).n) if not isinstance(to_seq(base).n, int) else z3.IntVal(to_seq(base).n)
                    if self.st.quick(bz >= 0) and not self.st.quick(bz <= nz) and not self.st.quick(bz > nz):
                        self.st.decide(bz <= nz)
            r = V.seq_slice(base, lo, hi)
            if isinstance(base, list) and r.items is not None:
                return list(r.items)
            return r
        if isinstance(base, tuple):
            r = V.seq_slice(list(base), lo, hi)
            if r.items is not None: return tuple(r.items)
        if isinstance(base, Opaque):
            return Opaque('str') if base.what == 'str' else Opaque('slice-of-' + base.what)
        raise Unsupported('slice of %r' % (base,))

    def getitem(self, base, idx):
        if isinstance(base, (list, tuple, str, bytes)):
            if isinstance(idx, int):
                try:
                    return base[idx]
                except IndexError:
                    raise Raised('IndexError')
            if isinstance(idx, (SInt, SBool)):
                if isinstance(base, (list, tuple)) and len(base) > 32 and all(isinstance(x, int) for x in base):
                    # constant table indexed symbolically (CRC table): case split on the index, one path per entry
                    n = len(base)
                    iz = zint(idx)
                    if self.st.provable(z3.And(iz >= 0, iz < n)):
                        k = self.st.branch(n, 'table-index')
                        self.st.assume(V._cmp('==', idx, k))
                        return base[k]
                s = to_seq(list(base) if isinstance(base, (tuple, str)) else base)
                return self.seq_index(s, idx)
            raise Raised('TypeError')
        if isinstance(base, Seq):
            return self.seq_index(base, idx)
        if isinstance(base, dict):
            if isinstance(idx, (SInt, SBool)):
                for k in base:
                    if isinstance(k, int) or V.is_sym(k):
                        if self.st.decide(V._cmp('==', idx, k)):
                            return base[k]
                raise Raised('KeyError')
            # symbolic keys stored in a native dict (rare): compare against each
            try:
                if idx in base:
                    return base[idx]
            except TypeError:
                raise Raised('TypeError')
            for k in base:
                if V.is_sym(k) and V._isnum(idx):
                    if self.st.decide(V._cmp('==', idx, k)):
                        return base[k]
            raise Raised('KeyError')
        if isinstance(base, SMap):
            if self.st.decide(base.has(idx)):
                return base.get(idx)
            raise Raised('KeyError')
        if isinstance(base, Obj):
            m = base.cls.find_method('__getitem__')
            if m is not None:
                return self.invoke(m, [base, idx], {})
            raise Raised('TypeError')
        if isinstance(base, Opaque):
            if self.cfg.opaque_attr is not None:
                r = self.cfg.opaque_attr(self, base, ('[]', idx))
                if r is not NotImplemented:
                    return r
            if base.what == 'str':
                return Opaque('str')
            return Opaque('item-of-' + base.what)
        if base is None:
            raise Raised('TypeError')
        raise Unsupported('subscript of %r' % (base,))

    def seq_index(self, s, idx):
        if isinstance(idx, bool): idx = int(idx)
        if not V._isnum(idx):
            raise Raised('TypeError')
        n = s.n
        if isinstance(idx, int) and isinstance(n, int):
            if -n <= idx < n:
                return s.at(idx % n if idx < 0 else idx)
            raise Raised('IndexError')
        iz, nz = zint(idx), zint(n) if not isinstance(n, int) else z3.IntVal(n)
        if isinstance(idx, int) and idx >= 0:
            if self.st.decide(iz < nz):
                return s.at(idx)
            raise Raised('IndexError')
        if isinstance(idx, int) and idx < 0:
            if self.st.decide(nz + iz >= 0):
                return s.at(mk(nz + iz))
            raise Raised('IndexError')
        if self.st.decide(z3.And(iz >= 0, iz < nz)):
            return s.at(idx)
        if self.st.decide(z3.And(iz < 0, iz >= -nz)):
            return s.at(mk(nz + iz))
        raise Raised('IndexError')

    def e_Lambda(self, e, fr):
        return Closure(e, fr)

    def e_ListComp(self, e, fr):
        return self.comp(e, fr, 'list')

    def e_GeneratorExp(self, e, fr):
        return self.comp(e, fr, 'gen')

    def e_SetComp(self, e, fr):
        return set(self.comp(e, fr, 'list'))

    def e_DictComp(self, e, fr):
        out = {}
        def rec(gi, f2):
            if gi == len(e.generators):
                out[self.ev(e.key, f2)] = self.ev(e.value, f2); return
            g = e.generators[gi]
            for item in self.iterate(self.ev(g.iter, f2)):
                self.assign(g.target, item, f2)
                if all(self.decide(self.ev(c, f2)) for c in g.ifs):
                    rec(gi + 1, f2)
        rec(0, Frame(fr.module, fr.cls, fr.func, {}, parent=fr))
        return out

    def comp(self, e, fr, kind):
        f2 = Frame(fr.module, fr.cls, fr.func, {}, parent=fr)
        if len(e.generators) == 1 and not e.generators[0].ifs:
            g = e.generators[0]
            src = self.ev(g.iter, fr)
            if isinstance(src, ChunkList):
                src = ChunkSeqView(src)
            symsrc = (isinstance(src, Seq) and src.items is None) or (isinstance(src, RangeV) and not src.concrete()) or isinstance(src, ChunkSeqView)
            if symsrc and isinstance(g.target, ast.Name):
                # map over a symbolic-length source: the element expression is evaluated once for a fresh
                # index j under 0 <= j < n (no fork, no raise allowed there), then j is substituted (DESIGN 2.2)
                st = self.st
                n = src.length() if isinstance(src, (Seq, ChunkSeqView)) else src.count()
                j = z3.Int(st.fresh_name('cj'))
                st.solver.push()
                st.solver.add(j >= 0, j < zint(n))
                nqf = len(st.qf)
                st.qf.extend([j >= 0, j < zint(n)])      # visible to the cheap simplifier while the element is evaluated
                try:
                    f3 = Frame(fr.module, fr.cls, fr.func, {g.target.id: src.at(mk(j))}, parent=fr)
                    val = self.ev_noraise(e.elt, f3, forced=True)
                except _WouldFork:
                    raise Unsupported('comprehension element may fork or raise for some index; needs a loop instead')
                finally:
                    st.solver.pop()
                    del st.qf[nqf:]
                if isinstance(val, Seq) and val.is_bytes() and val.items is not None:
                    terms = [zint(x) for x in val.items]
                    def chunk(k, terms=terms, j=j):
                        return [mk(z3.substitute(t, (j, zint(k)))) for t in terms]
                    return ChunkList(n, len(terms), chunk)
                if isinstance(val, (Opaque, str)):
                    return Opaque('list-of-text')        # e.g. [hex(x) for x in packet] built for a log message
                if not V._isnum(val):
                    raise Unsupported('comprehension over symbolic source with non-numeric element')
                isb = isinstance(val, (bool, SBool))
                term = zbool(val) if isb else zint(val)
                def at(k, term=term, j=j):
                    return mk(z3.substitute(term, (j, zint(k))))
                return Seq('list', n if isinstance(n, int) else zint(n), at=at, elem='bool' if isb else 'int')
        out = []
        def rec(gi):
            if gi == len(e.generators):
                out.append(self.ev(e.elt, f2)); return
            g = e.generators[gi]
            for item in self.iterate(self.ev(g.iter, f2)):
                self.assign(g.target, item, f2)
                if all(self.decide(self.ev(c, f2)) for c in g.ifs):
                    rec(gi + 1)
        rec(0)
        return out

    def e_Await(self, e, fr):
        return self.ev(e.value, fr)

    def e_Starred(self, e, fr):
        raise Unsupported('starred expression')

    def e_NamedExpr(self, e, fr):
        v = self.ev(e.value, fr)
        self.assign(e.target, v, fr)
        return v

    # ------------------------------------------------------------------ iteration
    def iterate(self, v):
        """concrete iteration (python list of items); symbolic-length iteration is handled by loops"""
        if isinstance(v, (list, tuple, set, frozenset, str)):
            return list(v)
        if isinstance(v, bytes):
            return list(v)
        if isinstance(v, dict):
            return list(v.keys())
        if isinstance(v, Seq):
            if v.items is not None:
                return list(v.items)
            raise Unsupported('iteration over symbolic-length sequence without loop annotation')
        if isinstance(v, RangeV):
            if v.concrete():
                return list(range(v.lo, v.hi, v.step))
            raise Unsupported('iteration over symbolic range without loop annotation')
        if isinstance(v, IterV):
            return list(v.items)
        if isinstance(v, Obj):
            m = v.cls.find_method('__iter__')
            if m is not None:
                return self.iterate(self.invoke(m, [v], {}))
        if isinstance(v, Opaque):
            raise Unsupported('iteration over opaque value %s' % v.what)
        raise Raised('TypeError')

    # ------------------------------------------------------------------ calls
    def e_Call(self, e, fr):
        # super() needs the frame
        if isinstance(e.func, ast.Name) and e.func.id == 'super' and 'super' not in fr.env:
            if e.args:
                c = self.ev(e.args[0], fr); o = self.ev(e.args[1], fr)
                return SuperV(c, o)
            f = fr
            while f is not None and f.func is None:
                f = f.parent
            selfname = f.func.node.args.args[0].arg
            return SuperV(f.func.cls, f.env[selfname])
        if isinstance(e.func, ast.Name) and e.func.id in ('locals', 'globals', 'vars') and not e.args:
            raise Unsupported(e.func.id)
        f = self.ev(e.func, fr)
        args = []
        for a in e.args:
            if isinstance(a, ast.Starred):
                args.extend(self.iterate(self.ev(a.value, fr)))
            else:
                args.append(self.ev(a, fr))
        kw = {}
        for k in e.keywords:
            if k.arg is None:
                d = self.ev(k.value, fr)
                if not isinstance(d, dict): raise Unsupported('** of non-dict')
                kw.update(d)
            else:
                kw[k.arg] = self.ev(k.value, fr)
        return self.call_value(f, args, kw, fr)

    def call_value(self, f, args, kw, fr=None):
        from . import libmodels
        if isinstance(f, BoundMethod):
            return self.invoke(f.func, [f.obj] + list(args), kw)
        if isinstance(f, FuncInfo):
            return self.invoke(f, list(args), kw)
        if isinstance(f, ClassInfo):
            return self.construct(f, args, kw)
        if isinstance(f, Closure):
            return self.call_closure(f, args, kw)
        if isinstance(f, Partial):
            k2 = dict(f.kw); k2.update(kw)
            return self.call_value(f.f, list(f.args) + list(args), k2, fr)
        if isinstance(f, libmodels.Builtin):
            return f.fn(self, args, kw)
        if isinstance(f, NativeMethod):
            return libmodels.native_method(self, f.recv, f.name, args, kw)
        if isinstance(f, ExtName):
            return libmodels.ext_call(self, f.qual, args, kw)
        if isinstance(f, PyCallable):
            return f.fn(self, args, kw)
        if isinstance(f, Obj):
            m = f.cls.find_method('__call__')
            if m is not None:
                return self.invoke(m, [f] + list(args), kw)
        if isinstance(f, Opaque):
            return libmodels.opaque_call(self, f, args, kw)
        if f is None:
            raise Raised('TypeError')
        raise Unsupported('call of %r' % (f,))

    def call_closure(self, c, args, kw):
        node = c.node
        env = self.bind_args(node.args, args, kw, c.frame, 'lambda')
        fr = Frame(c.frame.module, c.frame.cls, c.frame.func, env, parent=c.frame)
        return self.ev(node.body, fr)

    def default_value(self, node, defframe):
        """python evaluates the default of a module- or class-level def once: every call that leaves the parameter out receives the
        same object (a mutable default is shared between calls).  Lambdas and nested defs are re-created each time their
        definition runs, their defaults are evaluated then."""
        if defframe.func is not None or defframe.parent is not None:
            return self.ev(node, defframe)
        cache = self.__dict__.setdefault('_defaults', {})
        if id(node) not in cache:
            cache[id(node)] = self.ev(node, defframe)
        return cache[id(node)]

    def bind_args(self, a, args, kw, defframe, fname):
        env = {}
        params = [p.arg for p in a.posonlyargs + a.args]
        defaults = [None] * (len(params) - len(a.defaults)) + list(a.defaults)
        args = list(args)
        kw = dict(kw)
        for i, p in enumerate(params):
            if i < len(args):
                env[p] = args[i]
                if p in kw: raise Raised('TypeError', where='%s() got multiple values for %s' % (fname, p))
            elif p in kw:
                env[p] = kw.pop(p)
            elif defaults[i] is not None:
                env[p] = self.default_value(defaults[i], defframe)
            else:
                raise Raised('TypeError', where='%s() missing argument %s' % (fname, p))
        if len(args) > len(params):
            if a.vararg is None:
                raise Raised('TypeError', where='%s() takes %d positional arguments but %d were given' % (fname, len(params), len(args)))
            env[a.vararg.arg] = tuple(args[len(params):])
        elif a.vararg is not None:
            env[a.vararg.arg] = ()
        for p, d in zip(a.kwonlyargs, a.kw_defaults):
            if p.arg in kw: env[p.arg] = kw.pop(p.arg)
            elif d is not None: env[p.arg] = self.default_value(d, defframe)
            else: raise Raised('TypeError', where='missing keyword-only argument')
        if a.kwarg is not None:
            env[a.kwarg.arg] = kw
        elif kw:
            raise Raised('TypeError', where='%s() got an unexpected keyword argument %s' % (fname, sorted(kw)[0]))
        return env

    def construct(self, cls, args, kw):
        if cls.is_subclass_of(Repo.get().cls('pymodbus.interfaces.Singleton') or object()):
            pass
        o = Obj(cls)
        init = cls.find_method('__init__')
        if init is not None:
            self.invoke(init, [o] + list(args), kw)
        elif cls.is_exception():
            o.fields['args'] = tuple(args)
        elif args or kw:
            # external base __init__ (socketserver etc.) is modelled by cfg.ext
            handled = False
            for c in cls.mro():
                if isinstance(c, ExtName) and (c.qual + '.__init__') in self.cfg.ext:
                    self.cfg.ext[c.qual + '.__init__'](self, [o] + list(args), kw); handled = True; break
            if not handled and not any(isinstance(c, ExtName) and c.qual != 'object' for c in cls.mro()):
                raise Raised('TypeError', where='%s() takes no arguments' % cls.name)
        return o

    def invoke(self, func, args, kw):
        """call of a /repo function: contract if configured, else inline"""
        q = func.qualname
        hook = self.cfg.hooks.get(q)
        if hook is not None:
            hook(self, args, kw)
        c = self.cfg.contracts.get(q)
        if c is not None:
            self.st.assumed_calls.append(q) if q not in self.st.assumed_calls else None
            return c.apply(self, args, kw)
        if q in self.cfg.no_inline:
            return self.unknown_call(q, args, kw)
        return self.call_function(func, args, kw)

    def unknown_call(self, q, args, kw):
        if q not in self.st.unknown_calls:
            self.st.unknown_calls.append(q)
        # may raise any Exception
        if self.st.decide(z3.Bool(self.st.fresh_name('raises_' + q.split('.')[-1]))):
            raise Raised('Exception', where=q)
        return Opaque('result-of-' + q)

    def call_function(self, func, args, kw):
        self.depth += 1
        if self.depth > 60:
            self.depth -= 1
            raise Unsupported('call depth > 60 (recursion?) at %s' % func.qualname)
        try:
            node = func.node
            for n in ast.walk(node):
                if isinstance(n, (ast.Yield, ast.YieldFrom)):
                    raise Unsupported('generator function %s' % func.qualname)
            defframe = Frame(func.module, func.cls, None, {})
            if func.kind == 'classmethod' and (not args or not isinstance(args[0], ClassInfo)):
                args = [func.cls] + list(args)
            env = self.bind_args(node.args, args, kw, defframe, func.name)
            fr = Frame(func.module, func.cls, func, env)
            try:
                self.block(node.body, fr)
            except _Return as r:
                return r.v
            return None
        finally:
            self.depth -= 1

    # ------------------------------------------------------------------ statements
    def block(self, body, fr):
        for s in body:
            self.stmt(s, fr)

    def stmt(self, s, fr):
        m = getattr(self, 's_' + type(s).__name__, None)
        if m is None:
            raise Unsupported('statement %s' % type(s).__name__)
        return m(s, fr)

    def s_Expr(self, s, fr):
        if isinstance(s.value, ast.Constant):
            return
        self.ev(s.value, fr)

    def s_Pass(self, s, fr): pass

    def s_Global(self, s, fr):
        fr.globals_decl = getattr(fr, 'globals_decl', set()) | set(s.names)

    def s_Nonlocal(self, s, fr):
        raise Unsupported('nonlocal')

    def s_Import(self, s, fr):
        for a in s.names:
            name = a.asname or a.name.split('.')[0]
            full = a.name if a.asname else a.name.split('.')[0]
            m = Repo.get().module(full)
            fr.env[name] = m if m is not None else ExtModule(full)

    def s_ImportFrom(self, s, fr):
        modname = s.module or ''
        if s.level:
            raise Unsupported('relative import')
        m = Repo.get().module(modname)
        for a in s.names:
            if a.name == '*':
                if m is None:
                    continue
                ns = module_ns(m)
                allv = ns.get('__all__')
                names = allv if isinstance(allv, list) else [k for k in ns if not k.startswith('_')]
                for k in names:
                    if k in ns: fr.env[k] = ns[k]
                continue
            name = a.asname or a.name
            if m is not None:
                ns = module_ns(m)
                if a.name in ns:
                    fr.env[name] = ns[a.name]
                else:
                    sub = Repo.get().module(modname + '.' + a.name)
                    if sub is not None:
                        fr.env[name] = sub
                    else:
                        raise Raised('ImportError', where='%s.%s' % (modname, a.name))
            else:
                fr.env[name] = ExtName(modname + '.' + a.name)

    def s_FunctionDef(self, s, fr):
        if fr.func is None and fr.cls is None and s.name in fr.module.funcs and fr.module.funcs[s.name].node is s:
            fr.env[s.name] = fr.module.funcs[s.name]
        else:
            fi = FuncInfo(fr.module, fr.cls, s)
            # nested function: closure over the defining frame
            fr.env[s.name] = NestedFunc(fi, fr)

    s_AsyncFunctionDef = s_FunctionDef

    def s_ClassDef(self, s, fr):
        if s.name in fr.module.classes and fr.module.classes[s.name].node is s:
            fr.env[s.name] = fr.module.classes[s.name]
        else:
            raise Unsupported('nested class')

    def s_Assign(self, s, fr):
        v = self.ev(s.value, fr)
        for t in s.targets:
            self.assign(t, v, fr)

    def s_AnnAssign(self, s, fr):
        if s.value is not None:
            self.assign(s.target, self.ev(s.value, fr), fr)

    def assign(self, t, v, fr):
        if isinstance(t, ast.Name):
            name = mangle(t.id, fr.cls)
            if name in getattr(fr, 'globals_decl', ()):
                module_ns(fr.module)[name] = v
            else:
                fr.env[name] = v
        elif isinstance(t, ast.Attribute):
            self.setattr(self.ev(t.value, fr), mangle(t.attr, fr.cls), v)
        elif isinstance(t, (ast.Tuple, ast.List)):
            if isinstance(v, Seq):
                if v.items is None:
                    n = len(t.elts)
                    if self.st.decide(zint(v.n) == n):
                        items = [v.at(i) for i in range(n)]
                    else:
                        raise Raised('ValueError')
                else:
                    items = v.items
            elif isinstance(v, (list, tuple)):
                items = list(v)
            elif isinstance(v, bytes):
                items = list(v)
            elif isinstance(v, Opaque):
                items = [Opaque('item-of-' + v.what) for _ in t.elts]
            else:
                items = self.iterate(v)
            if any(isinstance(x, ast.Starred) for x in t.elts):
                si = [j for j, x in enumerate(t.elts) if isinstance(x, ast.Starred)][0]
                nafter = len(t.elts) - si - 1
                if len(items) < len(t.elts) - 1:
                    raise Raised('ValueError')
                head, mid, tail = items[:si], items[si:len(items) - nafter], items[len(items) - nafter:]
                for tt, vv in zip(t.elts[:si], head):
                    self.assign(tt, vv, fr)
                self.assign(t.elts[si].value, list(mid), fr)
                for tt, vv in zip(t.elts[si + 1:], tail):
                    self.assign(tt, vv, fr)
                return
            if len(items) != len(t.elts):
                raise Raised('ValueError')
            for tt, vv in zip(t.elts, items):
                self.assign(tt, vv, fr)
        elif isinstance(t, ast.Subscript):
            base = self.ev(t.value, fr)
            if isinstance(t.slice, ast.Slice):
                lo = self.ev(t.slice.lower, fr) if t.slice.lower else None
                hi = self.ev(t.slice.upper, fr) if t.slice.upper else None
                if t.slice.step is not None:
                    raise Unsupported('extended slice assignment')
                self.setslice(t.value, base, lo, hi, v, fr)
            else:
                self.setitem(base, self.ev(t.slice, fr), v, t.value, fr)
        else:
            raise Unsupported('assignment target %s' % type(t).__name__)

    def setitem(self, base, idx, v, basenode=None, fr=None):
        if isinstance(base, dict):
            if isinstance(idx, (SInt, SBool)):
                for k in list(base):
                    if V._isnum(k) and self.st.decide(V._cmp('==', idx, k)):
                        base[k] = v
                        return
                base[idx] = v
                return
            base[idx] = v
            return
        if isinstance(base, list):
            if isinstance(idx, int):
                try:
                    base[idx] = v
                except IndexError:
                    raise Raised('IndexError')
                return
            n = len(base)
            iz = zint(idx)
            for j in range(n):
                if self.st.decide(z3.Or(iz == j, iz == j - n)):
                    base[j] = v
                    return
            raise Raised('IndexError')
        if isinstance(base, SMap):
            base.set(idx, v)
            return
        if isinstance(base, Seq) and base.kind == 'list':
            n = base.n
            iz = zint(idx)
            nz = zint(n) if not isinstance(n, int) else z3.IntVal(n)
            if not self.st.decide(z3.And(iz >= -nz, iz < nz)):
                raise Raised('IndexError')
            pos = z3.If(iz < 0, iz + nz, iz)
            old = base.copy()
            if base.items is not None:
                base.items = None
            base.n = n
            if base.elem == 'bool':
                base._at = lambda k, old=old, pos=pos, v=v: mk(z3.If(zint(k) == pos, zbool(v), old.zat(k)))
            else:
                base._at = lambda k, old=old, pos=pos, v=v: mk(z3.If(zint(k) == pos, zint(v), old.zat(k)))
            return
        if isinstance(base, Obj):
            m = base.cls.find_method('__setitem__')
            if m is not None:
                self.invoke(m, [base, idx, v], {})
                return
        if isinstance(base, Opaque):
            return
        raise Raised('TypeError')

    def setslice(self, basenode, base, lo, hi, v, fr):
        if isinstance(base, list) and all(x is None or isinstance(x, int) for x in (lo, hi)) and isinstance(v, (list, tuple)):
            base[lo:hi] = list(v)
            return
        if isinstance(base, list):
            s = to_seq(base)
            new = self._slice_assign(s, lo, hi, to_seq(v))
            # the native list must become a Seq: rebind through the target expression
            self.assign(basenode, new, fr)
            return
        if isinstance(base, Seq) and base.kind == 'list':
            new = self._slice_assign(base, lo, hi, to_seq(v))
            base.items, base.n, base._at, base.elem = new.items, new.n, new._at, new.elem
            return
        raise Unsupported('slice assignment on %r' % (base,))

    def _slice_assign(self, s, lo, hi, v):
        n = zint(s.n) if not isinstance(s.n, int) else z3.IntVal(s.n)
        def norm(x, default):
            if x is None: return default
            xz = zint(x)
            xz = z3.If(xz < 0, xz + n, xz)
            return z3.If(xz < 0, z3.IntVal(0), z3.If(xz > n, n, xz))
        l = z3.simplify(norm(lo, z3.IntVal(0)))
        h = z3.simplify(norm(hi, n))
        h = z3.simplify(z3.If(h < l, l, h))
        vn = zint(v.n) if not isinstance(v.n, int) else z3.IntVal(v.n)
        newn = z3.simplify(l + vn + (n - h))
        old = s.copy()
        elem = s.elem if not (v.items is not None and not v.items) else s.elem
        if v.elem == 'bool' and s.elem == 'bool': elem = 'bool'
        def at(k, old=old, l=l, h=h, vn=vn, v=v):
            kz = zint(k)
            if elem == 'bool':
                return mk(z3.If(kz < l, old.zat(kz), z3.If(kz < l + vn, zbool(v.at(mk(kz - l))), old.zat(mk(kz - vn + (h - l))))))
            return mk(z3.If(kz < l, old.zat(kz), z3.If(kz < l + vn, zint(v.at(mk(kz - l))), old.zat(mk(kz - vn + (h - l))))))
        if z3.is_int_value(newn) and s.items is not None and v.items is not None and z3.is_int_value(l) and z3.is_int_value(h):
            items = list(s.items); items[l.as_long():h.as_long()] = v.items
            return Seq('list', None, items=items, elem=elem)
        return Seq('list', newn if not z3.is_int_value(newn) else newn.as_long(), at=at, elem=elem)

    def s_AugAssign(self, s, fr):
        # evaluate target once
        t = s.target
        if isinstance(t, ast.Name):
            cur = self.ev(ast.Name(id=t.id, ctx=ast.Load()), fr)
            rhs = self.ev(s.value, fr)
            if isinstance(cur, list) and isinstance(s.op, ast.Add):
                cur.extend(self.iterate(rhs)); return
            self.assign(t, self.binop(type(s.op), cur, rhs, fr), fr)
        elif isinstance(t, ast.Attribute):
            base = self.ev(t.value, fr)
            name = mangle(t.attr, fr.cls)
            cur = self.getattr(base, name, fr)
            rhs = self.ev(s.value, fr)
            if isinstance(cur, list) and isinstance(s.op, ast.Add):
                if isinstance(rhs, Seq) and rhs.items is None:
                    self.setattr(base, name, V.seq_concat(cur, rhs)); return
                cur.extend(self.iterate(rhs)); return
            if isinstance(cur, Seq) and cur.kind == 'list' and isinstance(s.op, ast.Add):
                new = V.seq_concat(cur.copy(), rhs)
                cur.items, cur.n, cur._at, cur.elem = new.items, new.n, new._at, new.elem
                return
            self.setattr(base, name, self.binop(type(s.op), cur, rhs, fr))
        elif isinstance(t, ast.Subscript):
            base = self.ev(t.value, fr)
            idx = self.ev(t.slice, fr)
            cur = self.getitem(base, idx)
            rhs = self.ev(s.value, fr)
            self.setitem(base, idx, self.binop(type(s.op), cur, rhs, fr), t.value, fr)
        else:
            raise Unsupported('augmented assignment target')

    def s_Delete(self, s, fr):
        for t in s.targets:
            if isinstance(t, ast.Name):
                fr.env.pop(t.id, None)
            elif isinstance(t, ast.Subscript):
                base = self.ev(t.value, fr)
                idx = self.ev(t.slice, fr)
                if isinstance(base, dict):
                    if isinstance(idx, (SInt, SBool)):
                        for k in list(base):
                            if V._isnum(k) and self.st.decide(V._cmp('==', idx, k)):
                                del base[k]; break
                        else:
                            raise Raised('KeyError')
                    else:
                        if idx not in base: raise Raised('KeyError')
                        del base[idx]
                elif isinstance(base, SMap):
                    if not self.st.decide(base.has(idx)): raise Raised('KeyError')
                    base.delete(idx)
                elif isinstance(base, list) and isinstance(idx, int):
                    try: del base[idx]
                    except IndexError: raise Raised('IndexError')
                elif isinstance(base, Obj) and base.cls.find_method('__delitem__'):
                    self.invoke(base.cls.find_method('__delitem__'), [base, idx], {})
                else:
                    raise Unsupported('del item')
            elif isinstance(t, ast.Attribute):
                base = self.ev(t.value, fr)
                if isinstance(base, Obj):
                    if t.attr not in base.fields: raise Raised('AttributeError')
                    del base.fields[t.attr]
                else:
                    raise Unsupported('del attribute')
            else:
                raise Unsupported('del target')

    def s_If(self, s, fr):
        if self.decide(self.ev(s.test, fr)):
            self.block(s.body, fr)
        else:
            self.block(s.orelse, fr)

    def s_Return(self, s, fr):
        raise _Return(self.ev(s.value, fr) if s.value is not None else None)

    def s_Break(self, s, fr): raise _Break()
    def s_Continue(self, s, fr): raise _Continue()

    def s_Assert(self, s, fr):
        if not self.decide(self.ev(s.test, fr)):
            raise Raised('AssertionError')

    def s_Raise(self, s, fr):
        if s.exc is None:
            f = fr
            while f is not None and f.exc is None:
                f = f.parent
            if f is None:
                raise Raised('RuntimeError')
            raise f.exc
        v = self.ev(s.exc, fr)
        raise self.to_raised(v)

    def to_raised(self, v):
        if isinstance(v, ClassInfo):
            v = self.construct(v, [], {})
        if isinstance(v, Obj):
            if not v.cls.is_exception():
                return Raised('TypeError')
            return Raised(v.cls.name, payload=v)
        if isinstance(v, ExtName):
            return Raised(v.qual)
        if isinstance(v, ExcVal):
            return Raised(v.cls, payload=v)
        if isinstance(v, Raised):
            return v
        if isinstance(v, Opaque) and v.info.get('exc'):
            return Raised(v.info['exc'], payload=v)
        raise Unsupported('raise of %r' % (v,))

    def exc_value(self, r):
        if r.payload is not None:
            return r.payload
        return ExcVal(r.cls)

    def handler_matches(self, h, r, fr):
        if h.type is None:
            return True
        t = self.ev(h.type, fr)
        ts = t if isinstance(t, tuple) else (t,)
        mro = r.mro()
        for x in ts:
            if isinstance(x, ClassInfo):
                if x.name in mro: return True
            elif isinstance(x, ExtName):
                q = x.qual
                if q in mro or q.split('.')[-1] in mro: return True
                from .resolver import ALIASES
                if ALIASES.get(q) in mro: return True
            else:
                raise Unsupported('except clause type %r' % (x,))
        return False

    def s_Try(self, s, fr):
        try:
            try:
                self.block(s.body, fr)
            except Raised as r:
                for h in s.handlers:
                    if self.handler_matches(h, r, fr):
                        if h.name:
                            fr.env[h.name] = self.exc_value(r)
                        saved = fr.exc
                        fr.exc = r
                        try:
                            self.block(h.body, fr)
                        finally:
                            fr.exc = saved
                        break
                else:
                    raise
            else:
                self.block(s.orelse, fr)
        finally:
            if s.finalbody:
                # a finally body that itself raises/returns replaces the outcome in flight (python semantics)
                self.block(s.finalbody, fr)

    def s_With(self, s, fr):
        mgrs = []
        for item in s.items:
            m = self.ev(item.context_expr, fr)
            entered = self.with_enter(m)
            if item.optional_vars is not None:
                self.assign(item.optional_vars, entered, fr)
            mgrs.append(m)
        try:
            self.block(s.body, fr)
        finally:
            for m in reversed(mgrs):
                self.with_exit(m)

    s_AsyncWith = s_With

    def with_enter(self, m):
        if isinstance(m, Obj):
            f = m.cls.find_method('__enter__')
            if f is not None:
                return self.invoke(f, [m], {})
        if isinstance(m, Opaque):
            h = m.info.get('on_enter')
            if h: h(self, m)
            return m
        raise Unsupported('with on %r' % (m,))

    def with_exit(self, m):
        if isinstance(m, Obj):
            f = m.cls.find_method('__exit__')
            if f is not None:
                self.invoke(f, [m, None, None, None], {})
                return
        if isinstance(m, Opaque):
            h = m.info.get('on_exit')
            if h: h(self, m)

    # ------------------------------------------------------------------ loops
    def loop_key(self, fr):
        q = fr.func.qualname if fr.func is not None else '<module %s>' % fr.module.name
        return q

    def s_While(self, s, fr):
        q = self.loop_key(fr)
        ordn = loop_ordinal(fr, s)
        ann = self.cfg.loops.get((q, ordn))
        if ann is not None:
            return self.cut_while(s, fr, ann)
        bound = self.cfg.unroll.get((q, ordn), MAX_UNROLL)
        it = 0
        while True:
            if not self.decide(self.ev(s.test, fr)):
                self.block(s.orelse, fr)
                return
            it += 1
            if it > bound:
                if (q, ordn) in self.cfg.unroll:
                    if getattr(self.cfg, 'unwind', False):
                        # unwinding assertion: a unit that is counted as proved must show that no execution goes past the bound
                        self.st.prove('unwind:%s#%d:no-iteration-beyond-%d' % (q.rsplit('.', 1)[-1], ordn, bound), False, kind='helper')
                    raise LoopCutEnd()     # iterations beyond the bound are not examined (first-iteration / bounded lemmas)
                raise Unsupported('while loop without invariant exceeded %d iterations in %s' % (bound, q))
            try:
                self.block(s.body, fr)
            except _Break:
                return
            except _Continue:
                continue

    def s_For(self, s, fr):
        q = self.loop_key(fr)
        ordn = loop_ordinal(fr, s)
        ann = self.cfg.loops.get((q, ordn))
        src = self.ev(s.iter, fr)
        if ann is not None:
            return self.cut_for(s, fr, src, ann)
        if isinstance(src, RangeV) and not src.concrete() or isinstance(src, Seq) and src.items is None:
            bound = self.cfg.unroll.get((q, ordn))
            if bound is None:
                raise Unsupported('loop #%d of %s iterates over a symbolic-length value and has no invariant' % (ordn, q))
            # bounded unrolling (bounded mode only)
            seqlike = src
            n = src.count() if isinstance(src, RangeV) else src.length()
            for j in range(bound + 1):
                if not self.st.decide(zint(n) > j):
                    self.block(s.orelse, fr)
                    return
                if j == bound:
                    if getattr(self.cfg, 'unwind', False):
                        self.st.prove('unwind:%s#%d:no-iteration-beyond-%d' % (q.rsplit('.', 1)[-1], ordn, bound), False, kind='helper')
                    raise PathAbort()
                self.assign(s.target, seqlike.at(j), fr)
                try:
                    self.block(s.body, fr)
                except _Break:
                    return
                except _Continue:
                    continue
            return
        # python iterates a list by position over the LIVE object (a body that removes items makes the loop skip some) and refuses
        # to go on over a dict whose size changed
        if isinstance(src, Obj):
            m = src.cls.find_method('__iter__')
            if m is not None:
                src = self.invoke(m, [src], {})
        live = src if isinstance(src, list) else getattr(src, 'live', None)
        ldict = src if isinstance(src, dict) else getattr(src, 'live_dict', None)
        if isinstance(live, list):
            idx = getattr(src, 'pos', 0) if live is not src else 0
            while idx < len(live):
                item = live[idx]
                idx += 1
                self.assign(s.target, item, fr)
                try:
                    self.block(s.body, fr)
                except _Break:
                    return
                except _Continue:
                    continue
            self.block(s.orelse, fr)
            return
        items = self.iterate(src)
        n0 = len(ldict) if isinstance(ldict, dict) else None
        for item in items:
            if n0 is not None and len(ldict) != n0:
                raise Raised('RuntimeError', where='dictionary changed size during iteration')
            self.assign(s.target, item, fr)
            try:
                self.block(s.body, fr)
            except _Break:
                return
            except _Continue:
                continue
        self.block(s.orelse, fr)

    s_AsyncFor = s_For

    # -- loop cut at an invariant (DESIGN 2.3)
    def havoc_targets(self, s, fr):
        """names and object fields the loop body may assign (including, for calls of self.<method>(...), the
        attributes of self assigned by that method and the methods it calls - interprocedural modifies set)"""
        names, attrs = set(), []
        selfname = fr.func.node.args.args[0].arg if (fr.func is not None and fr.func.cls is not None and fr.func.node.args.args) else None
        selfobj = fr.env.get(selfname) if selfname else None
        if isinstance(selfobj, Obj):
            seen, work = set(), [ast.Module(body=s.body + (s.orelse or []), type_ignores=[])]
            test = getattr(s, 'test', None)
            if test is not None:
                work.append(test)
            while work:
                node = work.pop()
                for n in ast.walk(node):
                    if isinstance(n, ast.Call) and isinstance(n.func, ast.Attribute) and isinstance(n.func.value, ast.Name) and n.func.value.id == selfname:
                        m = selfobj.cls.find_method(n.func.attr)
                        if m is not None and m.qualname not in seen and m.qualname not in self.cfg.contracts:
                            seen.add(m.qualname)
                            mself = m.node.args.args[0].arg if m.node.args.args else None
                            for x in ast.walk(m.node):
                                tg = x.targets if isinstance(x, ast.Assign) else [x.target] if isinstance(x, (ast.AugAssign, ast.AnnAssign)) else []
                                for t in tg:
                                    for y in ([t] if not isinstance(t, (ast.Tuple, ast.List)) else t.elts):
                                        if isinstance(y, ast.Subscript):
                                            y = y.value
                                        if isinstance(y, ast.Attribute) and isinstance(y.value, ast.Name) and y.value.id == mself:
                                            attrs.append(ast.Attribute(value=ast.Name(id=selfname, ctx=ast.Load()), attr=y.attr, ctx=ast.Load()))
                            work.append(m.node)
        for n in ast.walk(ast.Module(body=s.body, type_ignores=[])):
            tg = []
            if isinstance(n, ast.Assign): tg = n.targets
            elif isinstance(n, (ast.AugAssign, ast.AnnAssign)): tg = [n.target]
            elif isinstance(n, ast.For): tg = [n.target]
            elif isinstance(n, ast.Call) and isinstance(n.func, ast.Attribute) and n.func.attr in ('append', 'extend', 'pop', 'insert', 'remove', 'update', 'clear'):
                tg = [n.func.value]
            for t in tg:
                for x in ([t] if not isinstance(t, (ast.Tuple, ast.List)) else t.elts):
                    if isinstance(x, ast.Name): names.add(x.id)
                    elif isinstance(x, ast.Attribute): attrs.append(x)
                    elif isinstance(x, ast.Subscript):
                        b = x.value
                        if isinstance(b, ast.Name): names.add(b.id)
                        elif isinstance(b, ast.Attribute): attrs.append(b)
        return names, attrs

    def havoc_value(self, v, hint, elem=None):
        st = self.st
        if elem is not None and isinstance(v, (Seq, list)):
            s = to_seq(v)
            return Seq.fresh(s.kind, hint, elem=elem, inp=False)
        if isinstance(v, (bool, SBool)):
            return mk(z3.Bool(st.fresh_name(hint)))
        if isinstance(v, (int, SInt)):
            return mk(z3.Int(st.fresh_name(hint)))
        if isinstance(v, (bytes, Seq, list)):
            s = to_seq(v)
            if isinstance(v, list) and any(not V._isnum(x) for x in v):
                raise Unsupported('havoc of a list of non-numeric values (%s)' % hint)
            r = Seq.fresh(s.kind, hint, elem=s.elem, lo=0 if s.is_bytes() else None, hi=256 if s.is_bytes() else None, inp=False)
            return r
        if v is None:
            return None
        if isinstance(v, dict) and all(isinstance(k, (str, int)) and not V.is_sym(k) for k in v):
            return {k: self.havoc_value(x, '%s[%s]' % (hint, k)) for k, x in v.items()}
        if isinstance(v, str):
            return v
        raise Unsupported('havoc of %r (%s)' % (v, hint))

    def do_havoc(self, s, fr, ann):
        names, attrs = self.havoc_targets(s, fr)
        keep = set(getattr(ann, 'keep', ()))
        attrs = [a for a in attrs if a.attr not in keep]
        for nm in sorted(names):
            nm2 = mangle(nm, fr.cls)
            if nm2 in fr.env:
                if nm2 in getattr(ann, 'keep', ()):
                    continue
                fr.env[nm2] = self.havoc_value(fr.env[nm2], nm2, getattr(ann, 'elem', {}).get(nm))
        seen = set()
        for a in attrs:
            key = ast.unparse(a)
            if key in seen: continue
            seen.add(key)
            try:
                base = self.ev(a.value, fr)
            except Raised:
                continue
            name = mangle(a.attr, fr.cls)
            if isinstance(base, Obj) and name in base.fields:
                cur = base.fields[name]
                el = getattr(ann, 'elem', {}).get(name)
                if el is not None and isinstance(cur, (Seq, list)):
                    new = self.havoc_value(cur, name, el)
                    if isinstance(cur, Seq):
                        cur.items, cur.n, cur._at, cur.elem = None, new.n, new._at, new.elem
                    else:
                        base.fields[name] = new
                elif isinstance(cur, Seq) and cur.kind == 'list':
                    new = self.havoc_value(cur, name)
                    cur.items, cur.n, cur._at, cur.elem = None, new.n, new._at, new.elem
                elif isinstance(cur, list):
                    base.fields[name] = self.havoc_value(cur, name)
                elif isinstance(cur, V.SMap):
                    new = V.SMap.fresh(name, cur.elem, inp=False)
                    cur._has, cur._get = new._has, new._get          # in place: aliases of the dict see the havoc
                else:
                    base.fields[name] = self.havoc_value(cur, name)

    def cut_for(self, s, fr, src, ann):
        st = self.st
        if isinstance(src, RangeV):
            n = src.count(); at = src.at
        elif isinstance(src, EnumerateV):
            n = src.seq.length(); at = lambda j, src=src: (mk(zint(j) + src.start), src.seq.at(j))
        else:
            sq = to_seq(src); n = sq.length(); at = sq.at
        nz = zint(n)
        view = LoopView(self, fr)
        if getattr(ann, 'entry', None) is not None:
            object.__setattr__(view, '_ghost', dict(_ann_call(ann.entry, view)))
        st.prove('inv:%s#entry' % ann.name, _inv(ann, view, 0), kind='helper')
        which = st.branch(2, 'loop:%s' % ann.name)
        self.do_havoc(s, fr, ann)
        if which == 0:
            # arbitrary iteration
            i = mk(z3.Int(st.fresh_name('i_' + ann.name)))
            st.assume(z3.And(zint(i) >= 0, zint(i) < nz))
            st.assume(_inv(ann, view, i))
            self.assign(s.target, at(i), fr)
            try:
                self.block(s.body, fr)
            except _Break:
                if getattr(ann, 'after_break', None) is not None:
                    st.prove('inv:%s#break' % ann.name, ann.after_break(view, i), kind='helper')
                    raise PathAbort()
                return            # continue after the loop with the state at the break
            except _Continue:
                pass
            st.prove('inv:%s#preserve' % ann.name, _inv(ann, view, i + 1), kind='helper')
            raise LoopCutEnd()
        else:
            st.assume(_inv(ann, view, n))
            self.block(s.orelse, fr)

    def _variant(self, ann, view, s, fr):
        v = getattr(ann, 'variant', None)
        if v is None:
            return None
        if v == 'auto':
            return _auto_variant(self, s, fr)
        return _ann_call(v, view)

    def cut_while(self, s, fr, ann):
        st = self.st
        view = LoopView(self, fr)
        if getattr(ann, 'entry', None) is not None:
            object.__setattr__(view, '_ghost', dict(_ann_call(ann.entry, view)))
        st.prove('inv:%s#entry' % ann.name, _inv(ann, view, None), kind='helper')
        which = st.branch(2, 'loop:%s' % ann.name)
        self.do_havoc(s, fr, ann)
        if getattr(ann, 'havoc', None) is not None:
            object.__setattr__(view, '_exit_path', which == 1)
            _ann_call(ann.havoc, view)
        st.assume(_inv(ann, view, None))
        if which == 0:
            if not self.decide(self.ev(s.test, fr)):
                raise PathAbort()
            v0 = self._variant(ann, view, s, fr)
            try:
                self.block(s.body, fr)
            except _Break:
                if getattr(ann, 'exit_any', False):
                    # the code after the loop is examined once, from the havoc'd state with the loop test left open (other branch); a
                    # state that leaves by break only has to be one of those states
                    st.prove('inv:%s#break' % ann.name, _inv(ann, view, None), kind='helper')
                    raise LoopCutEnd()
                return
            except _Continue:
                pass
            st.prove('inv:%s#preserve' % ann.name, _inv(ann, view, None), kind='helper')
            if v0 is not None:
                v1 = self._variant(ann, view, s, fr)
                st.prove('var:%s' % ann.name, mk(z3.And(zint(v0) >= 0, zint(v1) < zint(v0))), kind='helper')
            raise LoopCutEnd()
        else:
            if getattr(ann, 'exit_any', False):
                if s.orelse:
                    raise Unsupported('exit_any on a while loop with an else clause')
                return
            if self.decide(self.ev(s.test, fr)):
                raise PathAbort()
            self.block(s.orelse, fr)


def _auto_variant(interp, s, fr):
    """variant read off the loop test `a < b` / `a <= b` (names of locals do not matter): b - a"""
    t = s.test
    if isinstance(t, ast.Compare) and len(t.ops) == 1 and isinstance(t.ops[0], (ast.Lt, ast.LtE)):
        return interp.ev(ast.BinOp(left=t.comparators[0], op=ast.Sub(), right=t.left), fr)
    if isinstance(t, ast.Compare) and len(t.ops) == 1 and isinstance(t.ops[0], (ast.Gt, ast.GtE)):
        return interp.ev(ast.BinOp(left=t.left, op=ast.Sub(), right=t.comparators[0]), fr)
    raise Unsupported('no variant can be read off the loop test %s' % ast.unparse(t))


def _ann_call(fn, *args):
    """evaluate a piece of a loop annotation; an annotation that no longer fits the source (missing attribute / key, other shape) makes the
    loop out of reach of the proof - undecided, the executable twin still runs - rather than a checker failure"""
    try:
        return fn(*args)
    except (AttributeError, KeyError, IndexError, TypeError) as e:
        raise Unsupported('loop annotation does not apply to the current source (%s: %s)' % (type(e).__name__, e))


def _inv(ann, view, j):
    return _ann_call(ann.invariant, view, j)


class _WouldFork(Exception):
    pass


class RepStr:
    """text prefix + ch * n with symbolic n (struct formats assembled at run time: '>' + 'H' * n)"""
    def __init__(self, prefix, ch, n):
        self.prefix, self.ch, self.n = prefix, ch, n


class NumStr:
    """str(n) for a symbolic integer n"""
    def __init__(self, n):
        self.n = n


class FmtS:
    """struct format prefix + str(n) + suffix with symbolic n (add_string: byteorder + str(len(value)) + 's')"""
    def __init__(self, prefix, n, suffix):
        self.prefix, self.n, self.suffix = prefix, n, suffix


class ChunkList:
    """list of n byte strings of the same concrete length m: element(k) -> list of m byte values
    (generator of struct.pack results joined by bytes.join)"""
    def __init__(self, n, m, fn):
        self.n, self.m, self.fn = n, m, fn


class PyCallable:
    """a python-level callable handed into the interpreted program by a unit (callbacks, stubs)"""
    def __init__(self, fn, name='pycallable'):
        self.fn, self.name = fn, name


class NestedFunc(Closure):
    def __init__(self, fi, frame):
        self.fi, self.frame = fi, frame
        self.node = fi.node


def _call_nested(interp, nf, args, kw):
    node = nf.fi.node
    env = interp.bind_args(node.args, args, kw, nf.frame, nf.fi.name)
    fr = Frame(nf.frame.module, nf.frame.cls, nf.fi, env, parent=nf.frame)
    try:
        interp.block(node.body, fr)
    except _Return as r:
        return r.v
    return None


_orig_call_closure = Interp.call_closure
def _call_closure(self, c, args, kw):
    if isinstance(c, NestedFunc):
        return _call_nested(self, c, args, kw)
    return _orig_call_closure(self, c, args, kw)
Interp.call_closure = _call_closure


class ChunkSeqView:
    """a ChunkList seen as a sequence of byte strings (iteration source of a comprehension)"""
    def __init__(self, cl):
        self.cl = cl

    def length(self):
        return mk(zint(self.cl.n)) if not isinstance(self.cl.n, int) else self.cl.n

    def at(self, k):
        return Seq('bytes', None, items=self.cl.fn(k))


class RangeV:
    def __init__(self, lo, hi, step=1):
        self.lo, self.hi, self.step = lo, hi, step
        if not isinstance(step, int) or step == 0:
            raise Unsupported('range with symbolic or zero step')

    def concrete(self):
        return isinstance(self.lo, int) and isinstance(self.hi, int)

    def count(self):
        if self.concrete():
            return len(range(self.lo, self.hi, self.step))
        lo, hi, st = zint(self.lo), zint(self.hi), self.step
        if st > 0:
            c = (hi - lo + (st - 1)) / st
        else:
            c = (lo - hi + (-st - 1)) / (-st)
        return mk(z3.If(c < 0, z3.IntVal(0), c))

    def at(self, j):
        return self.lo + j * self.step if (isinstance(j, int) and isinstance(self.lo, int)) else mk(zint(self.lo) + zint(j) * self.step)


class EnumerateV:
    def __init__(self, seq, start=0):
        self.seq, self.start = seq, start


class IterV:
    """materialised iterator (iteritems(...), zip(...), enumerate(...) over concrete-length data)"""
    def __init__(self, items):
        self.items = list(items)
        self.pos = 0


class LoopView:
    """what a loop invariant may look at: the locals of the interpreted frame (view.name); view.E = the E api"""
    def __init__(self, interp, fr):
        object.__setattr__(self, '_i', interp)
        object.__setattr__(self, '_fr', fr)

    def __getattr__(self, name):
        if name.startswith('__'):
            raise AttributeError(name)
        fr = object.__getattribute__(self, '_fr')
        if name == 'E':
            from .sym import SymE
            it = object.__getattribute__(self, '_i')
            E = SymE(it.st, it.cfg)
            E.I = it
            return E
        g = self.__dict__.get('_ghost')
        if g is not None and name in g:
            return g[name]
        nm = mangle(name, fr.cls)
        if nm in fr.env:
            return fr.env[nm]
        # the annotation names a local the function no longer has (renamed or restructured loop): the annotation does not apply to this
        # source any more - the loop is then out of reach of the proof (undecided; the executable twin still runs), not a checker failure
        raise Unsupported('loop annotation refers to a local variable `%s` that %s does not have (the loop was rewritten; the invariant no longer applies)'
                          % (name, fr.func.qualname if fr.func is not None else 'the module'))


def loop_ordinal(fr, node):
    """ordinal of a loop statement inside its function (source order, nested loops included)"""
    root = fr.func.node if fr.func is not None else fr.module.tree
    k = 0
    for n in ast.walk(root):
        pass
    # ast.walk is breadth-first; use a deterministic depth-first order instead
    def dfs(n):
        nonlocal k
        for c in ast.iter_child_nodes(n):
            if isinstance(c, (ast.For, ast.While, ast.AsyncFor)):
                if c is node:
                    return k
                k += 1
            if isinstance(c, (ast.FunctionDef, ast.AsyncFunctionDef, ast.Lambda, ast.ClassDef)) and c is not root:
                continue
            r = dfs(c)
            if r is not None:
                return r
        return None
    r = dfs(root)
    return r if r is not None else -1


def is_simple_or_index(e):
    return True
