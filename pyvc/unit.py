"""Units of verification: function contracts and property-level lemmas.

FunctionContract  "function against a spec function": `pre` + an executable reference `spec`
                  (pure python over the contract language, may update the objects it is given and
                  raise).  Verifying it = running the real body and the spec from the same symbolic
                  pre-state on every path and proving result, final state and exception agree.
                  At a call site (modular verification) the caller proves `pre` and continues with
                  `spec` in place of the body.
Lemma             a python function lemma(E) whose E.prove clauses are the sentences of a property;
                  it reaches the real code through E.call / E.method, with the contracts it lists
                  substituted for callees.
"""
import time, traceback, json, os
from . import lang as L


class LoopAnn:
    """loop annotation: invariant(view, i) [, variant(view)] for loop #ordinal of a function"""
    def __init__(self, name, invariant, variant=None, keep=(), after_break=None, elem=None, entry=None):
        self.name, self.invariant, self.variant, self.keep, self.after_break = name, invariant, variant, keep, after_break
        self.havoc = None                # havoc(view): extra python-level havoc of state the static analysis cannot type (set after construction)
        self.exit_any = False            # True (while loops): the code after the loop is examined from the havoc'd state with the test left open; break states must satisfy the invariant
        self.entry = entry               # entry(view) -> dict of ghost values captured at loop entry, visible as view.<name>
        self.elem = dict(elem or {})     # element type of lists that are empty at loop entry: {'bits': 'bool'}


class Unit:
    kind = 'lemma'

    def __init__(self, name, fn, props, contracts=(), loops=None, level='property', functions=(), twin=None,
                 no_inline=(), ext=None, unroll=None, bounded=False, note=''):
        self.name = name              # obligation namespace, e.g. 'C05/fc01.quantity'
        self.fn = fn
        self.props = list(props)
        self.contracts = list(contracts)
        self.loops = dict(loops or {})
        self.level = level            # 'property' (may raise VIOLATION) | 'helper'
        self.functions = list(functions)   # qualnames of /repo functions whose bodies this unit executes
        self.twin = twin              # callable(E) input generator overrides for the executable twin
        self.no_inline = set(no_inline)
        self.ext = dict(ext or {})
        self.unroll = dict(unroll or {})
        self.bounded = bounded        # uses bounded unrolling: never counted as proved
        self.note = note
        self.concrete_only = False    # True: bounded stand-in only (executable twin over seeded inputs); nothing is discharged, nothing counted as proved
        self.shards = 1               # >1: the driver explores the alternatives of wide branches (constant tables) in parallel

    def config(self, exclude=()):
        from .interp import Config
        cfg = Config()
        for c in self.contracts:
            # loop annotations of a contract stay available when its body is inlined instead (helper re-verification)
            for k, v in getattr(c, 'loops', {}).items():
                cfg.loops[(c.qual, k) if not isinstance(k, tuple) else k] = v
            if c.qual in exclude:
                continue
            cfg.contracts[c.qual] = c
        cfg.loops.update(self.loops)
        cfg.no_inline |= self.no_inline
        cfg.ext.update(self.ext)
        cfg.unroll.update(self.unroll)
        cfg.unwind = bool(getattr(self, 'unwind', False))   # True: going past an unroll bound is an obligation (the unit claims the bound is enough)
        return cfg

    def __call__(self, E):
        return self.fn(E)


class FunctionContract:
    """subclass and define: qual, make(E)->(args, kw), pre(E,*a,**k), spec(E,*a,**k); optional
    loops {ordinal: LoopAnn}, observe(E, args, kw, result)->value compared between body and spec."""
    qual = None
    props = ()
    loops = {}
    callee_contracts = ()      # contracts assumed for callees while verifying this body
    skip_fields = ()
    compare_state_on_raise = True   # False: the state of the arguments after a raise is left unspecified by the contract

    def pre(self, E, *args, **kw):
        return True

    def apply(self, I, args, kw):
        """caller side (symbolic mode): prove pre, continue with the spec"""
        from .sym import SymE
        E = SymE(I.st, I.cfg)
        E.I = I
        I.st.prove('pre@%s' % self.qual, self.pre(E, *args, **kw), kind='pre')
        return self.spec(E, *args, **kw)

    def observe(self, E, args, kw, result):
        return (result, list(args), kw)

    def unit(self):
        c = self

        def fn(E):
            args, kw = c.make(E)
            E.assume(c.pre(E, *args, **kw))
            E.cover('pre-satisfiable')
            a2, k2 = E.clone((list(args), kw))
            real = E.attempt(lambda: E.call(c.qual, *args, **kw))
            ref = E.attempt(lambda: c.spec(E, *a2, **k2))
            if real.ok != ref.ok:
                E.prove('post:raises-agree', False, real=repr(real), spec=repr(ref))
                return
            if not real.ok:
                E.prove('post:raises-agree', real.exc.cls == ref.exc.cls, real=real.exc.cls, spec=ref.exc.cls)
                if c.compare_state_on_raise:
                    E.prove('post:state-on-raise', E.same_state(c.observe(E, args, kw, None), c.observe(E, a2, k2, None), skip=c.skip_fields))
                return
            E.prove('post:raises-agree', True)
            E.prove('post:result', E.same_state(real.value, ref.value, skip=c.skip_fields))
            E.prove('post:state', E.same_state(c.observe(E, args, kw, None), c.observe(E, a2, k2, None), skip=c.skip_fields))
        loops = {(c.qual, k): v for k, v in c.loops.items()}
        u = Unit('contract/' + c.qual, fn, c.props, contracts=c.callee_contracts, loops=loops, level='helper', functions=[c.qual])
        u.kind = 'contract'
        u.contract = c
        return u


class RelContract(FunctionContract):
    """relational contract: pre + post(E, args, kw, result) predicate; the result is havoc'd at call sites
    (result(E, args, kw) builds a fresh value of the right shape) and `post` is assumed; may_raise lists the
    exception classes the function may raise (any other escaping exception fails the contract)."""
    may_raise = ()

    def result(self, E, *args, **kw):
        return None

    def post(self, E, args, kw, result):
        return True

    def apply(self, I, args, kw):
        from .sym import SymE
        E = SymE(I.st, I.cfg)
        E.I = I
        I.st.prove('pre@%s' % self.qual, self.pre(E, *args, **kw), kind='pre')
        if self.may_raise:
            k = I.st.branch(1 + len(self.may_raise), 'outcome:' + self.qual)
            if k > 0:
                raise E.Raised(self.may_raise[k - 1])
        r = self.result(E, *args, **kw)
        E.assume(self.post(E, args, kw, r))
        return r

    def unit(self):
        c = self

        def fn(E):
            args, kw = c.make(E)
            E.assume(c.pre(E, *args, **kw))
            E.cover('pre-satisfiable')
            real = E.attempt(lambda: E.call(c.qual, *args, **kw))
            if not real.ok:
                E.prove('post:raises-only-declared', real.exc.isinstance(*c.may_raise) if c.may_raise else False, real=real.exc.cls)
                return
            E.prove('post:relation', c.post(E, args, kw, real.value))
        loops = {(c.qual, k): v for k, v in c.loops.items()}
        u = Unit('contract/' + c.qual + getattr(c, 'suffix', ''), fn, c.props, contracts=c.callee_contracts, loops=loops, level='helper', functions=[c.qual])
        u.kind = 'contract'
        u.contract = c
        return u


# ----------------------------------------------------------------------------- running a unit (symbolic)
def run_symbolic(unit, z3_ms=10000, cvc5_ms=20000, both=False, exclude_contracts=(), shard=None):
    """explore + discharge; returns a JSON-able dict"""
    from . import engine
    from .sym import SymE
    from .resolver import Repo
    t0 = time.time()
    cfg = unit.config(exclude=exclude_contracts)
    out = {'unit': unit.name, 'props': unit.props, 'level': unit.level, 'kind': unit.kind, 'paths': 0, 'obligations': [],
           'out_of_reach': None, 'error': None, 'functions': {}, 'assumed_contracts': [], 'unknown_calls': [],
           'bounded': unit.bounded, 'covers': [], 'lemmas_used': []}
    if getattr(unit, 'concrete_only', False):
        out['bounded'] = True
        out['secs'] = 0.0
        out['solver_secs'] = 0.0
        return out
    try:
        res = engine.explore(unit, lambda st: SymE(st, cfg), shard=shard)
        out['paths'] = res.paths
        out['out_of_reach'] = res.out_of_reach
        out['assumed_contracts'] = res.assumed
        out['unknown_calls'] = res.unknown_calls
        out['covers'] = sorted(res.covers)
        out['lemmas_used'] = list(res.lemmas_used)
        ts = 0.0
        # wall-clock budget for discharging one unit: on a changed tree many obligations can turn hard at once (each then costs the full z3 +
        # cvc5 budget, and more for the second attempt below); past the budget the remaining ones are left unattempted (reported undecided)
        t_dis, cap, retried = time.time(), max(30 * z3_ms / 1000.0, 300.0), 0
        for o in res.obligs:
            if time.time() - t_dis > cap:
                o.status, o.solver, o.detail = 'skipped', 'none', 'not attempted: the time budget of this unit (%d s) was used up by earlier obligations' % cap
            else:
                engine.discharge(o, z3_ms, cvc5_ms, both)
                if o.status == 'unknown' and retried < 4 and ('%s/%s' % (unit.name, o.label)) in engine.BASELINE:
                    # discharged on the unchanged tree: before it is reported as failing, rule out a solver budget effect
                    retried += 1
                    engine.discharge(o, z3_ms * 4, cvc5_ms * 2, False)
            ts += o.secs
            out['obligations'].append({'label': o.label, 'status': o.status, 'solver': o.solver, 'secs': round(o.secs, 4),
                                       'model': o.model, 'ghost': getattr(o, 'ghost', None), 'kind': o.meta.get('kind', 'post'), 'detail': o.detail,
                                       'meta': {k: (v if isinstance(v, (int, str, bool, float, type(None))) else repr(v)) for k, v in o.meta.items() if not k.startswith('_')}})
        out['solver_secs'] = round(ts, 3)
        for q in unit.functions:
            f = Repo.get().func(q)
            out['functions'][q] = f.source_hash() if f is not None else None
    except Exception:
        out['error'] = traceback.format_exc()
    out['secs'] = round(time.time() - t0, 3)
    return out
