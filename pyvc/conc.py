"""Concrete-mode E: same API as pyvc.sym.SymE, but values are ordinary python values and E.call /
E.method run the *real* pymodbus code natively (under /venv/bin/python, no solver).  Used for
(1) replay of counter-models, (2) executable twins / bounded stand-ins, (3) engine cross-checks."""
import os
import copy, importlib, random, sys
from . import lang as L


class Vacuous(Exception):
    """an assumption of the unit does not hold for these inputs (the case is outside the unit's domain)"""


class ConcRaised(Exception):
    def __init__(self, cls, real=None):
        Exception.__init__(self, cls)
        self.cls = cls
        self.real = real
        self.payload = real

    def names(self):
        if self.real is None:
            from .excnames import builtin_mro
            return builtin_mro(self.cls)
        out = []
        for c in type(self.real).__mro__:
            out.append(c.__name__)
            out.append('%s.%s' % (c.__module__, c.__name__))
            if c.__module__ == 'binascii' and c.__name__ == 'Error':
                out.append('binascii.Error')
        if isinstance(self.real, OSError):
            out += ['socket.error', 'IOError', 'EnvironmentError']
        return out

    def isinstance(self, *names):
        ns = self.names()
        return any(n in ns for n in names)


def exc_name(e):
    t = type(e)
    if t.__module__ in ('builtins',):
        return t.__name__
    if t.__module__ in ('struct', 'binascii', 'socket', 'ssl', 'serial', 'serial.serialutil'):
        return '%s.%s' % (t.__module__.split('.')[0], t.__name__)
    return t.__name__


class Outcome:
    cut = False

    def __init__(self, value=None, exc=None):
        self.value, self.exc = value, exc

    @property
    def ok(self):
        return self.exc is None

    def raised(self, *names):
        return self.exc is not None and self.exc.isinstance(*names)

    def __repr__(self):
        return 'Outcome(%r)' % (self.exc.cls if self.exc else self.value,)


class Gen:
    """input generator for twins: boundary-biased pseudo-random values, seeded"""
    def __init__(self, seed=0):
        self.r = random.Random(seed)

    def int(self, name, lo, hi):
        lo_ = -3 if lo is None else lo
        hi_ = 70000 if hi is None else hi
        if hi_ <= lo_:
            raise Vacuous()
        cands = [lo_, lo_ + 1, hi_ - 1, hi_ - 2, (lo_ + hi_) // 2, 0, 1, 2, 7, 8, 9, 255, 256, 0xff00, 65535]
        cands = [c for c in cands if lo_ <= c < hi_]
        if self.r.random() < 0.6 and cands:
            return self.r.choice(cands)
        return self.r.randrange(lo_, hi_)

    def bool(self, name):
        return self.r.random() < 0.5

    def length(self, name, minlen, maxlen):
        hi = 12 if maxlen is None else min(maxlen, max(minlen, 12))
        cands = [minlen, minlen + 1, hi]
        if maxlen is not None and self.r.random() < 0.15:
            cands.append(maxlen)
        if self.r.random() < 0.5:
            return self.r.choice([c for c in cands if c >= minlen])
        return self.r.randint(minlen, max(minlen, hi))

    def choice(self, name, n):
        return self.r.randrange(n)


class MinGen(Gen):
    """values for inputs a replayed counter-model / witness does not mention (the model leaves them unconstrained): the least ones -
    False, the lower bound (0 when there is none and 0 is allowed), the first choice, the shortest sequence"""
    def int(self, name, lo, hi):
        if lo is None:
            return 0 if (hi is None or hi > 0) else hi - 1
        return lo

    def bool(self, name):
        return False

    def length(self, name, minlen, maxlen):
        return minlen

    def choice(self, name, n):
        return 0


def real_exception(name, *args):
    """instance of the real exception class called `name` (stubs of a unit must raise what the real code can catch)"""
    import builtins, struct as _s, binascii as _b, socket as _sk
    table = {'struct.error': _s.error, 'binascii.Error': _b.Error, 'socket.timeout': _sk.timeout, 'socket.error': OSError}
    if name in table:
        return table[name](*args)
    if hasattr(builtins, name) and isinstance(getattr(builtins, name), type) and issubclass(getattr(builtins, name), BaseException):
        return getattr(builtins, name)(*args)
    try:
        import pymodbus.exceptions as _pe
        if hasattr(_pe, name):
            return getattr(_pe, name)(*(args or ('',)))
    except ImportError:
        pass
    return ConcRaised(name)


class ConcE:
    mode = 'concrete'
    Raised = staticmethod(real_exception)

    def __init__(self, inputs=None, gen=None):
        self.inputs = dict(inputs or {})
        self.gen = gen
        self.results = []        # (label, ok, meta)
        self.used = {}           # inputs actually used (for reporting)
        self.L = L
        self.covers = set()
        self.notes = []

    # ---------------------------------------------------------------- inputs
    def _get(self, name, default_fn):
        if name in self.inputs:
            v = self.inputs[name]
        elif self.gen is not None:
            v = default_fn()
        else:
            # replay of a counter-model / witness that does not mention this input (the symbolic run never drew it, e.g. behind a contract):
            # the model leaves it unconstrained, so any value will do - the least one
            self.gen = MinGen(20260926)
            try:
                v = default_fn()
            finally:
                self.gen = None
            self.defaulted = getattr(self, 'defaulted', set()) | {name}
        self.used[name] = v
        return v

    def int(self, name, lo=None, hi=None):
        if name.startswith('cut') and self.gen is not None and name not in self.inputs:
            # cut positions: uniformly inside what has been generated so far (boundary-biased values are mostly out of range)
            hi_ = max((len(v['items']) for v in self.inputs.values() if isinstance(v, dict) and 'items' in v), default=8) + 8
            self.inputs[name] = self.gen.r.randrange(lo or 0, max((lo or 0) + 1, hi_))
        v = self._get(name, lambda: self.gen.int(name, lo, hi))
        if isinstance(v, bool) or not isinstance(v, int):
            raise Vacuous()
        if (lo is not None and v < lo) or (hi is not None and v >= hi):
            raise Vacuous()
        return v

    def bool(self, name):
        return bool(self._get(name, lambda: self.gen.bool(name)))

    def _seq(self, name, minlen, maxlen, mk):
        def gen():
            n = self.gen.length(name, minlen, maxlen)
            return {'items': [mk(j) for j in range(n)]}
        v = self._get(name, gen)
        items = v['items'] if isinstance(v, dict) else list(v)
        if len(items) < minlen or (maxlen is not None and len(items) > maxlen):
            raise Vacuous()
        return items

    def bytes(self, name, minlen=0, maxlen=None):
        items = self._seq(name, minlen, maxlen, lambda j: self.gen.int(name, 0, 256))
        if any(not 0 <= x < 256 for x in items):
            raise Vacuous()
        return bytes(items)

    def bytes_n(self, name, n):
        return bytes(self.int('%s[%d]' % (name, j), 0, 256) for j in range(n))

    def ints(self, name, lo=None, hi=None, minlen=0, maxlen=None):
        items = self._seq(name, minlen, maxlen, lambda j: self.gen.int(name, lo, hi))
        if any((lo is not None and x < lo) or (hi is not None and x >= hi) for x in items):
            raise Vacuous()
        return list(items)

    def ints_n(self, name, n, lo=None, hi=None):
        return [self.int('%s[%d]' % (name, j), lo, hi) for j in range(n)]

    def bools(self, name, minlen=0, maxlen=None):
        items = self._seq(name, minlen, maxlen, lambda j: self.gen.bool(name))
        return [bool(x) for x in items]

    def intmap(self, name, elem='int', lo=None, hi=None):
        def gen():
            r = self.gen.r
            ks = set()
            for _ in range(r.choice([0, 1, 2, 3])):            # a few runs of consecutive keys, so that ranges with and without holes both occur
                a = r.choice([0, 1, 2, 5, 9, 17, 100, 65530])
                ks.update(range(a, a + r.choice([1, 2, 3, 8, 20, 130])))
            for _ in range(r.choice([0, 0, 1, 3])):
                ks.discard(r.choice(sorted(ks)) if ks else 0)
            ks.update(self.gen.int(name, -1, 20) for _ in range(r.choice([0, 2])))
            return {'items': {k: (self.gen.bool(name) if elem == 'bool' else self.gen.int(name, 0, 65536)) for k in ks}}
        v = self._get(name, gen)
        items = v['items'] if isinstance(v, dict) and 'items' in v else v
        return {int(k): x for k, x in items.items()}

    def choice(self, name, options):
        options = list(options)
        k = self._get(name, lambda: self.gen.choice(name, len(options)))
        return options[k]

    # ---------------------------------------------------------------- objects and calls
    def cls(self, qual):
        mod, _, name = qual.rpartition('.')
        return getattr(importlib.import_module(mod), name)

    def obj(self, qual, **fields):
        c = qual if isinstance(qual, type) else self.cls(qual)
        o = c.__new__(c)
        for k, v in fields.items():
            object.__setattr__(o, k, v) if False else setattr(o, k, v)
        return o

    def new(self, qual, *args, **kw):
        c = qual if isinstance(qual, type) else self.cls(qual)
        return self._run(lambda: c(*args, **kw))

    def func(self, qual):
        parts = qual.split('.')
        for cut in range(len(parts) - 1, 0, -1):
            try:
                m = importlib.import_module('.'.join(parts[:cut]))
            except ImportError:
                continue
            v = m
            rest = parts[cut:]
            if len(rest) == 2:
                c = getattr(m, rest[0])
                raw = c.__dict__[rest[1]]
                if isinstance(raw, (classmethod, staticmethod)):
                    return getattr(c, rest[1])
                return raw
            # module-level function; private names are not mangled at module level
            return m.__dict__[rest[0]]
        raise KeyError(qual)

    def _run(self, thunk):
        try:
            return thunk()
        except ConcRaised:
            raise
        except Vacuous:
            raise
        except Exception as e:
            raise ConcRaised(exc_name(e), e)

    def classcall(self, cls_qual, name, *args, **kw):
        c = self.cls(cls_qual)
        return self._run(lambda: getattr(c, name)(*args, **kw))

    def func_exists(self, qual):
        try:
            self.func(qual)
            return True
        except (KeyError, AttributeError):
            return False

    def call(self, qual, *args, **kw):
        f = self.func(qual)
        return self._run(lambda: f(*args, **kw))

    def method(self, obj, name, *args, **kw):
        return self._run(lambda: getattr(obj, name)(*args, **kw))

    method_body = method

    def attempt(self, thunk, allow_cut=False):
        try:
            return Outcome(value=thunk())
        except ConcRaised as r:
            return Outcome(exc=r)
        except Vacuous:
            raise
        except Exception as e:             # a real exception raised by a stub of the unit outside E.call / E.method
            return Outcome(exc=ConcRaised(exc_name(e), e))

    def raise_(self, clsname):
        raise real_exception(clsname)

    def get(self, obj, name):
        return self._run(lambda: getattr(obj, name))

    def set(self, obj, name, value):
        setattr(obj, name, value)

    def has(self, obj, name):
        return hasattr(obj, name)

    def classname(self, obj):
        return type(obj).__name__

    def isinstance(self, obj, clsname):
        return clsname in [c.__name__ for c in type(obj).__mro__]

    def class_attr(self, qual, name):
        return getattr(self.cls(qual), name)

    def module_attr(self, mod, name):
        return importlib.import_module(mod).__dict__[name]

    def callback(self, fn, name='callback'):
        return fn

    def opaque(self, what, **info):
        return info.get('concrete', object())

    def check_args(self, qual, args, kw):
        import inspect
        f = self.func(qual)
        try:
            inspect.signature(f).bind(None, *args, **kw)
        except TypeError as e:
            raise ConcRaised('TypeError', e)

    def stub(self, what, methods=None, attrs=None, awaitable=()):
        ns = {}
        for k, fn in (methods or {}).items():
            if k in awaitable:
                async def co(self_, *a, fn=fn, **kw):
                    return fn(*a, **kw)
                ns[k] = co
                continue
            ns[k] = (lambda self_, *a, fn=fn, **kw: fn(*a, **kw))
        cls = type('Stub_' + what, (object,), ns)
        o = cls()
        for k, v in (attrs or {}).items():
            setattr(o, k, v)
        return o

    def fold(self, name, data, init, step, lo=None, hi=None, additive=False):
        acc = init
        for b in data:
            acc = step(acc, b)
        return acc

    def fold_state(self, name, data, j, unfold=False):
        raise Vacuous()

    def float(self, name, ch):
        import struct
        n = {'e': 2, 'f': 4, 'd': 8}[ch]
        def gen():
            # one case in four is a boundary pattern: +-0, +-inf, largest / smallest normal, smallest subnormal, +-1
            special = {'e': [0x0000, 0x8000, 0x7C00, 0xFC00, 0x7BFF, 0xFBFF, 0x0400, 0x0001, 0x3C00, 0xBC00],
                       'f': [0x00000000, 0x80000000, 0x7F800000, 0xFF800000, 0x7F7FFFFF, 0xFF7FFFFF, 0x00800000, 0x00000001, 0x3F800000, 0xBF800000],
                       'd': [0x0000000000000000, 0x8000000000000000, 0x7FF0000000000000, 0xFFF0000000000000, 0x7FEFFFFFFFFFFFFF, 0xFFEFFFFFFFFFFFFF,
                             0x0010000000000000, 0x0000000000000001, 0x3FF0000000000000, 0xBFF0000000000000]}[ch]
            if self.gen.r.random() < 0.25:
                return self.gen.r.choice(special)
            while True:
                bits = self.gen.r.getrandbits(8 * n)
                v = struct.unpack('>' + ch, bits.to_bytes(n, 'big'))[0]
                if v == v:            # not NaN
                    return bits
        bits = self._get(name, gen)
        return struct.unpack('>' + ch, int(bits).to_bytes(n, 'big'))[0]

    def float_be_bytes(self, v, ch):
        import struct
        return list(struct.pack('>' + ch, v))

    def float_eq(self, a, b, ch):
        import struct
        return struct.pack('>' + ch, a) == struct.pack('>' + ch, b)

    def tolist(self, seq):
        return list(seq)

    def as_bytes(self, seq):
        return bytes(seq)

    def clone(self, v, memo=None):
        return copy.deepcopy(v)

    # ---------------------------------------------------------------- logic
    def assume(self, cond):
        if not cond:
            raise Vacuous()

    def prove(self, label, cond, **meta):
        self.results.append((label, bool(cond), meta))

    def prove_forall(self, label, lo, hi, body, use=None, **meta):
        ok = all(bool(body(k)) for k in range(lo, hi))
        self.results.append((label, ok, meta))

    def use_lemma(self, name, cond):
        return cond

    def cover(self, label):
        self.covers.add(label)

    def note(self, text):
        self.notes.append(text)

    def fresh_int(self, name):
        raise Vacuous()

    def same_state(self, a, b, path='', skip=()):
        if isinstance(a, (bytes, bytearray, list, tuple)) and isinstance(b, (bytes, bytearray, list, tuple)):
            if len(a) != len(b):
                return False
            return all(self.same_state(x, y, path, skip) for x, y in zip(a, b))
        if isinstance(a, dict) and isinstance(b, dict):
            if set(a.keys()) != set(b.keys()):
                return False
            return all(self.same_state(a[k], b[k], path, skip) for k in a)
        if isinstance(a, (int, float, str, type(None))) or isinstance(b, (int, float, str, type(None))):
            if isinstance(a, bool) or isinstance(b, bool) or isinstance(a, int) and isinstance(b, int):
                return a == b
            return type(a) == type(b) and a == b
        if hasattr(a, '__dict__') and hasattr(b, '__dict__') and not isinstance(a, type):
            if type(a) is not type(b):
                return False
            da = {k: v for k, v in a.__dict__.items() if k not in skip}
            db = {k: v for k, v in b.__dict__.items() if k not in skip}
            return self.same_state(da, db, path, skip)
        return a is b or a == b


class CaseTimeout(BaseException):
    """the real code did not come back within the per-case limit"""


CASE_SECONDS = int(os.environ.get('PYVC_CASE_SECONDS', '60'))


def run_concrete(unit, inputs=None, gen=None):
    """-> (status, results, used): status 'ok' | 'vacuous' | 'error:<text>'.  A case that does not return within CASE_SECONDS is
    a failed clause 'unit:terminates' carrying the inputs drawn so far (a hang of the real code is an observation, not a crash
    of the checker)."""
    import signal
    E = ConcE(inputs, gen)
    undo = install_pre_checks(unit, E)

    def on_alarm(signum, frame):
        raise CaseTimeout()
    old = None
    try:
        old = signal.signal(signal.SIGALRM, on_alarm)
        signal.setitimer(signal.ITIMER_REAL, CASE_SECONDS)
    except ValueError:
        old = None                                  # not in the main thread: no limit
    try:
        unit.fn(E)
    except Vacuous:
        return 'vacuous', E.results, E.used
    except ConcRaised as r:
        E.results.append(('unit:no-unhandled-exception[%s]' % r.cls, False, {}))
    except CaseTimeout:
        E.results.append(('unit:terminates[within %ds]' % CASE_SECONDS, False, {}))
    finally:
        if old is not None:
            signal.setitimer(signal.ITIMER_REAL, 0)
            signal.signal(signal.SIGALRM, old)
        for (owner, name, orig) in undo:
            setattr(owner, name, orig)
    return 'ok', E.results, E.used


def install_pre_checks(unit, E):
    """run-time side of modular verification: the precondition of every contract the unit relies on is evaluated at each call
    the real code makes to that function (label pre@<qualname>, the same obligation the engine proves at the call site).  Calls
    made from inside a contracted function are not checked: the engine does not visit them either (the contract stands for the body)."""
    import importlib, functools
    undo = []
    depth = [0]
    for c in getattr(unit, 'contracts', ()):
        if type(c).pre is FunctionContract_pre():
            continue
        parts = c.qual.split('.')
        owner = None
        for k in range(len(parts) - 1, 0, -1):
            try:
                owner = importlib.import_module('.'.join(parts[:k]))
            except ImportError:
                continue
            rest = parts[k:]
            break
        if owner is None:
            continue
        try:
            for a in rest[:-1]:
                owner = getattr(owner, a)
            name = rest[-1]
            raw = owner.__dict__.get(name) if hasattr(owner, '__dict__') else None
        except AttributeError:
            continue
        if raw is None or isinstance(raw, (staticmethod, classmethod, property)) or not callable(raw):
            continue

        def make(c, raw):
            @functools.wraps(raw)
            def wrapper(*args, **kw):
                if depth[0] == 0:
                    try:
                        ok = c.pre(E, *args, **kw)
                    except (Vacuous, ConcRaised):
                        raise
                    except Exception:
                        ok = None          # the precondition is not evaluable on these run-time values: not checked
                    if ok is not None:
                        E.results.append(('pre@%s' % c.qual, bool(ok), {}))
                depth[0] += 1
                try:
                    return raw(*args, **kw)
                finally:
                    depth[0] -= 1
            return wrapper
        undo.append((owner, name, raw))
        setattr(owner, name, make(c, raw))
    return undo


def FunctionContract_pre():
    from .unit import FunctionContract
    return FunctionContract.pre
