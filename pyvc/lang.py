"""Contract language: helpers that mean the same thing on concrete python values (replay,
executable twins, under /venv/bin/python without z3) and on pyvc symbolic values (engine,
under python3-vt).  Spec functions in /verif/spec and contracts in /verif/units use only
these helpers plus ordinary integer arithmetic, so each exists once and runs in both modes."""
try:
    import z3 as _z3
    from . import values as V
except ImportError:          # concrete mode: no solver in this interpreter
    _z3 = None
    V = None


def _sym(*xs):
    if V is None:
        return False
    for x in xs:
        if isinstance(x, (V.SInt, V.SBool)):
            return True
        if isinstance(x, V.Seq) and x.items is None:
            return True
        if isinstance(x, V.Seq) and any(isinstance(i, (V.SInt, V.SBool)) for i in x.items):
            return True
        if isinstance(x, (list, tuple)) and any(isinstance(i, (V.SInt, V.SBool)) for i in x):
            return True
        if isinstance(x, V.SMap):
            return True
    return False


def _isseq(x):
    return isinstance(x, (bytes, bytearray, list, tuple)) or (V is not None and isinstance(x, V.Seq))


# ----------------------------------------------------------------------------- booleans
def And(*cs):
    if not _sym(*cs):
        return all(bool(c) for c in cs)
    if any(c is False for c in cs):
        return False
    return V.mk(_z3.And(*[V.zbool(c) for c in cs]))


def Or(*cs):
    if not _sym(*cs):
        return any(bool(c) for c in cs)
    if any(c is True for c in cs):
        return True
    return V.mk(_z3.Or(*[V.zbool(c) for c in cs]))


def Not(c):
    if not _sym(c):
        return not c
    return V.mk(_z3.Not(V.zbool(c)))


def Implies(a, b):
    if not _sym(a, b):
        return (not a) or bool(b)
    if a is False or b is True:
        return True
    return V.mk(_z3.Implies(V.zbool(a), V.zbool(b)))


def Iff(a, b):
    if not _sym(a, b):
        return bool(a) == bool(b)
    return V.mk(V.zbool(a) == V.zbool(b))


def ite(c, a, b):
    """if-then-else on values (ints / bools)"""
    if not _sym(c):
        return a if c else b
    if isinstance(a, (bool,)) and isinstance(b, (bool,)) or (V is not None and (isinstance(a, V.SBool) or isinstance(b, V.SBool))) and not isinstance(a, int) is False:
        pass
    if _isbool(a) and _isbool(b):
        return V.mk(_z3.If(V.zbool(c), V.zbool(a), V.zbool(b)))
    abv = getattr(a, 'bv', None)
    bbv = getattr(b, 'bv', None)
    if abv is not None or bbv is not None:
        W = max(abv.size() if abv is not None else 0, bbv.size() if bbv is not None else 0)
        def side(v, vbv):
            if vbv is not None:
                return V._resize(vbv, W)
            if isinstance(v, int) and not isinstance(v, bool) and 0 <= v < 2 ** W:
                return _z3.BitVecVal(v, W)
            return None
        p, q = side(a, abv), side(b, bbv)
        if p is not None and q is not None:
            return V.mkbv(_z3.If(V.zbool(c), p, q))
    return V.mk(_z3.If(V.zbool(c), V.zint(a), V.zint(b)))


def _isbool(x):
    return isinstance(x, bool) or (V is not None and isinstance(x, V.SBool))


def truth(x):
    """python truthiness of a number as a boolean value"""
    if not _sym(x):
        return bool(x)
    return V.mk(V.zbool(x))


def b2i(x):
    if not _sym(x):
        return 1 if x else 0
    return V.mk(V.zint(x))


# ----------------------------------------------------------------------------- sequences
def length(x):
    if V is not None and isinstance(x, V.Seq):
        return x.length()
    return len(x)


def at(x, i):
    """x[i]; total: the value at an index outside 0..len-1 is unspecified (0 on concrete data)"""
    if V is not None and (isinstance(x, V.Seq) or _sym(i)):
        s = V.to_seq(x)
        if s.items is not None and isinstance(i, int) and not 0 <= i < len(s.items):
            return False if s.elem == 'bool' else 0
        return s.at(i)
    if not 0 <= i < len(x):
        return 0
    return x[i]


def seq(n, f, kind='list', elem=None):
    """the sequence of length n whose k-th element is f(k)"""
    if not _sym(n):
        items = [f(k) for k in range(n)]
        if V is not None:
            if elem is None:
                elem = 'bool' if items and all(_isbool(i) for i in items) else 'int'
            return V.Seq(kind, None, items=items, elem=elem)
        return bytes(items) if kind == 'bytes' else items
    if elem is None:
        st = V.cur()
        probe = f(V.mk(_z3.Int(st.fresh_name('probe'))))
        elem = 'bool' if _isbool(probe) else 'int'
    return V.Seq(kind, V.zint(n), at=lambda k: f(k if isinstance(k, int) else V.mk(V.zint(k))), elem=elem)


def concat(*xs):
    if V is None:
        out = []
        for x in xs:
            out.extend(list(x))
        return out
    acc = V.to_seq(xs[0] if not isinstance(xs[0], tuple) else list(xs[0]))
    acc = acc.as_kind('list')
    for x in xs[1:]:
        acc = V.seq_concat(acc, V.to_seq(x if not isinstance(x, tuple) else list(x)).as_kind('list'))
    return acc


def slice_(x, lo, hi):
    if V is None:
        return list(x[lo:hi])
    return V.seq_slice(x, lo, hi)


def tolist(x):
    """view of a sequence as a list of its elements (bytes -> ints)"""
    if V is None:
        return list(x)
    return V.to_seq(x if not isinstance(x, tuple) else list(x)).as_kind('list')


def eq(a, b):
    """value equality; sequences are compared by content (kind bytes/list/tuple ignored)"""
    if _isseq(a) and _isseq(b):
        if V is None:
            return [_norm(v) for v in a] == [_norm(v) for v in b]
        sa = V.to_seq(a if not isinstance(a, tuple) else list(a)).as_kind('list')
        sb = V.to_seq(b if not isinstance(b, tuple) else list(b)).as_kind('list')
        if sa.elem != sb.elem:
            # compare bools with ints by value
            sa = _as_int_seq(sa)
            sb = _as_int_seq(sb)
        return V.seq_eq(sa, sb)
    if _isseq(a) or _isseq(b):
        return False
    if not _sym(a, b):
        if a is None or b is None:
            return a is b
        return a == b
    if a is None or b is None:
        return False
    return V._cmp('==', a, b)


def _norm(v):
    return int(v) if isinstance(v, bool) else v


def _as_int_seq(s):
    if s.elem == 'int':
        return s
    if s.items is not None:
        return V.Seq('list', None, items=[b2i(x) for x in s.items], elem='int')
    return V.Seq('list', s.n, at=lambda k, s=s: b2i(s.at(k)), elem='int')


_INQ = [0]


def forall(lo, hi, f):
    """for all integers k with lo <= k < hi: f(k)"""
    if not _sym(lo, hi) and (V is None or V.cur() is None or (hi - lo) <= 64):
        r = [f(k) for k in range(lo, hi)]
        return And(*r) if r else True
    st = V.cur()
    k = _z3.Int(st.fresh_name('q'))
    _INQ[0] += 1
    try:
        body = f(V.mk(k))
    finally:
        _INQ[0] -= 1
    if body is True:
        return True
    return V.mk(_z3.ForAll([k], _z3.Implies(_z3.And(k >= V.zint(lo), k < V.zint(hi)), V.zbool(body))))


def exists(lo, hi, f):
    if not _sym(lo, hi) and (V is None or V.cur() is None or (hi - lo) <= 64):
        r = [f(k) for k in range(lo, hi)]
        return Or(*r) if r else False
    st = V.cur()
    k = _z3.Int(st.fresh_name('q'))
    _INQ[0] += 1
    try:
        body = f(V.mk(k))
    finally:
        _INQ[0] -= 1
    return V.mk(_z3.Exists([k], _z3.And(k >= V.zint(lo), k < V.zint(hi), V.zbool(body))))


def in_range(x, lo, hi):
    return And(lo <= x, x < hi)


def all_in_range(s, lo, hi):
    return forall(0, length(s), lambda k: in_range(at(s, k), lo, hi))


# ----------------------------------------------------------------------------- maps
def map_has(m, k):
    if V is not None and isinstance(m, V.SMap):
        return m.has(k)
    return k in m


def map_get(m, k):
    if V is not None and isinstance(m, V.SMap):
        return m.get(k)
    return m.get(k, 0)      # total: unspecified (0) outside the domain


def map_set_range(m, address, values):
    """in place: m[address + j] = values[j] for every j"""
    if V is not None and isinstance(m, V.SMap):
        m.set_range(address, values)
    else:
        for j, v in enumerate(list(values)):
            m[address + j] = v


# ----------------------------------------------------------------------------- arithmetic helpers
def div(a, b):
    return a // b


def mod(a, b):
    return a % b


def minimum(a, b):
    return ite(a <= b, a, b)


def maximum(a, b):
    return ite(a >= b, a, b)


def hexval(c):
    """value of an ASCII hex digit character code (either case), -1 for any other character.  The symbolic term is built by
    the same function the a2b_hex / int(x, 16) library models use, so specifications and models agree syntactically"""
    if not _sym(c):
        return c - 48 if 48 <= c <= 57 else c - 55 if 65 <= c <= 70 else c - 87 if 97 <= c <= 102 else -1
    from . import libmodels
    return V.mk(libmodels.hexval(V.zint(c)))
