"""check driver: ./check <ID> --tier quick|thorough   |   ./check <ID> --replay <file>

exit 0  property held on everything examined (KNOWN-FINDING lines allowed)
exit 1  VIOLATION property=<id> replay=<path>   (counter-model replayed on the real code, twin-found
        failing input, or a baseline-discharged obligation now refuted: ... no-failing-input-found)
exit 2  undecided and no executable twin could run
exit 3  checker malfunction (traceback, solver disagreement, vacuity canary, engine/CPython mismatch)
"""
import sys, os, json, time, argparse, subprocess, importlib, multiprocessing, traceback, hashlib, tempfile

VERIF = os.path.dirname(os.path.dirname(os.path.abspath(__file__)))
OUT = os.environ.get('PYVC_OUT', VERIF)      # where evidence/ and replays/ are written (a scratch directory for self-validation sub-runs)
VENV_PY = '/venv/bin/python'
TIERS = {
    'quick':    dict(z3_ms=10000, cvc5_ms=20000, both=False, twin_cases=150, twin_seconds=60),
    'thorough': dict(z3_ms=60000, cvc5_ms=120000, both=True, twin_cases=3000, twin_seconds=240),
}

_UNITS = []
_OPTS = {}


def parse_known(path=None):
    path = path or os.path.join(VERIF, 'known-findings.txt')
    findings, fixed = [], []
    if not os.path.exists(path):
        return findings, fixed
    for line in open(path):
        line = line.strip()
        if not line or line.startswith('#'):
            continue
        if line.startswith('finding:'):
            head, _, what = line[len('finding:'):].partition('::')
            d = dict(tok.split('=', 1) for tok in head.split() if '=' in tok)
            d['what'] = what.strip()
            findings.append(d)
        elif line.startswith('fixed:'):
            fixed.append(line)
    return findings, fixed


def _work(task):
    from . import unit as U
    i, shard = task
    u = _UNITS[i]
    return i, shard, U.run_symbolic(u, _OPTS['z3_ms'], _OPTS['cvc5_ms'], _OPTS['both'],
                                    exclude_contracts=_OPTS.get('exclude', {}).get(u.name, ()), shard=shard)


def run_pool(idxs, jobs):
    if not idxs:
        return {}
    tasks = []
    for i in idxs:
        n = getattr(_UNITS[i], 'shards', 1)
        if n > 1:
            tasks += [(i, (k, n)) for k in range(n)]
        else:
            tasks.append((i, None))
    # long tasks first
    tasks.sort(key=lambda t: 0 if t[1] else 1)
    ctx = multiprocessing.get_context('fork')
    out = {}
    with ctx.Pool(min(jobs, len(tasks)), maxtasksperchild=1) as pool:     # a fresh process (fresh z3 context) per unit: reproducible verdicts
        for i, shard, r in pool.imap_unordered(_work, tasks):
            if i not in out:
                out[i] = r
            else:                      # merge the shards of one unit
                m = out[i]
                m['paths'] += r['paths']
                m['obligations'] += r['obligations']
                m['secs'] = max(m['secs'], r['secs'])
                m['solver_secs'] = m.get('solver_secs', 0) + r.get('solver_secs', 0)
                m['error'] = m['error'] or r['error']
                m['out_of_reach'] = m['out_of_reach'] or r['out_of_reach']
                m['covers'] = sorted(set(m['covers']) | set(r['covers']))
                for k in ('assumed_contracts', 'unknown_calls', 'lemmas_used'):
                    m[k] = sorted(set(m[k]) | set(r[k]))
    return out


def small_model_retry():
    pass


def main(argv=None):
    ap = argparse.ArgumentParser()
    ap.add_argument('prop')
    ap.add_argument('--tier', default=os.environ.get('VERIF_TIER', 'quick'))
    ap.add_argument('--replay')
    ap.add_argument('--jobs', type=int, default=int(os.environ.get('VERIF_JOBS', '16')))
    ap.add_argument('--only', help='run only units whose name contains this text (debugging; evidence not written)')
    ap.add_argument('-v', action='store_true')
    ap.add_argument('--list-discharged', action='store_true', help='print the names of all discharged obligations (to build baseline-obligations.txt)')
    a = ap.parse_args(argv)
    prop = a.prop
    seed = int(os.environ.get('VERIF_SEED', '0') or 0)
    sys.path.insert(0, VERIF)
    if a.replay:
        return do_replay(prop, a.replay)
    t0 = time.time()
    tier = TIERS[a.tier]
    global _UNITS, _OPTS
    _OPTS = dict(tier)
    from . import findings as F
    known, fixed = parse_known()
    known = [k for k in known if k.get('property') == prop]
    F.ACTIVE.clear()
    F.ACTIVE.update(k['id'] for k in known)
    try:
        mod = importlib.import_module('units.' + prop)
        _UNITS = mod.get_units()
    except Exception:
        traceback.print_exc()
        print('CHECKER-ERROR property=%s cannot load units' % prop)
        return 3
    if a.only:
        _UNITS = [u for u in _UNITS if a.only in u.name]
    names = [u.name for u in _UNITS]
    assert len(set(names)) == len(names), 'duplicate unit names'
    from . import engine as _engine
    _engine.BASELINE = load_baseline()
    res = run_pool(list(range(len(_UNITS))), a.jobs)

    # ---- helper (contract) failures: re-verify dependent lemmas with the helper's body inlined (DESIGN 2.7)
    def failed(r):
        return bool(r['error'] or r['out_of_reach'] or any(o['status'] != 'discharged' for o in r['obligations']))
    bad_contracts = set()
    for i, r in res.items():
        u = _UNITS[i]
        if u.kind == 'contract' and failed(r):
            bad_contracts.add(u.contract.qual)
    reran = []
    excl = {}
    _OPTS['exclude'] = excl
    # contracts verified against failed callee contracts are re-verified with those callee bodies inlined; one that then fails is
    # itself failed (fixpoint), so that a defect below a chain of contracts reaches the property-level lemmas
    for _round in range(8):
        idxs = []
        for i, u in enumerate(_UNITS):
            if u.kind != 'contract' or u.contract.qual in bad_contracts:
                continue
            used = set(c.qual for c in u.contracts) & bad_contracts
            if used and excl.get(u.name) != used:
                excl[u.name] = used
                idxs.append(i)
        if not idxs:
            break
        for i, r in run_pool(idxs, a.jobs).items():
            r['inlined_contracts'] = sorted(excl[_UNITS[i].name])
            reran.append(_UNITS[i].name)
            if failed(r):
                bad_contracts.add(_UNITS[i].contract.qual)      # keeps its first (modular) result, reported as HELPER-OPEN
            else:
                res[i] = r
    if bad_contracts:
        idxs = []
        for i, u in enumerate(_UNITS):
            used = set(c.qual for c in u.contracts) & bad_contracts
            if used and u.kind != 'contract':
                excl[u.name] = used
                idxs.append(i)
        res2 = run_pool(idxs, a.jobs)
        for i, r in res2.items():
            r['inlined_contracts'] = sorted(excl[_UNITS[i].name])
            res[i] = r
            reran.append(_UNITS[i].name)

    # ---- lemmas used as assumptions must be established by their own unit in this same check
    established = set()
    for i, r in res.items():
        u = _UNITS[i]
        if u.name.startswith('lemma/') and not r['error'] and not r['out_of_reach'] and r['obligations'] and all(o['status'] == 'discharged' for o in r['obligations']):
            established.add(u.name[len('lemma/'):])
    # ---- classify
    baseline_names = load_baseline()
    unknown_baseline = []
    broken_helpers = []       # loop invariants / helper obligations of property-level units that held on the unchanged tree and no longer do
    errors, undecided, refuted_prop, helper_open = [], [], [], []
    unsound = []              # clauses proved on every path that the executable twin nevertheless saw fail on the real code
    for i, r in res.items():
        for nm in r.get('lemmas_used', []):
            if nm not in established and not a.only:
                undecided.append((_UNITS[i].name, 'uses lemma %s which is not established on this run' % nm))
    n_obl = n_dis = 0
    by_backend = {}
    solver_secs = 0.0
    samples = []
    for i in sorted(res):
        r, u = res[i], _UNITS[i]
        if r['error']:
            errors.append((u.name, r['error']))
            continue
        if r['out_of_reach']:
            undecided.append((u.name, r['out_of_reach']))
        if not r['obligations'] and not r['out_of_reach'] and not u.bounded and not getattr(u, 'concrete_only', False):
            errors.append((u.name, 'vacuity: unit generated zero obligations (paths=%d)' % r['paths']))
        elif u.level == 'property' and not getattr(u, 'concrete_only', False) and not r['out_of_reach'] and not any(o['kind'] not in ('helper', 'pre') for o in r['obligations']):
            errors.append((u.name, 'vacuity: property-level unit produced no property clause (only loop/precondition obligations): its clauses were never reached'))
        solver_secs += r.get('solver_secs', 0)
        for o in r['obligations']:
            if u.bounded:
                # bounded unrolling: a discharged obligation proves nothing for all iterations (never counted); a refuted one is still
                # a candidate counterexample and goes through the replay on the real code like any other
                if o['status'] == 'refuted' and u.level == 'property' and o['kind'] in ('post', 'pre'):
                    refuted_prop.append((u, o))
                continue
            n_obl += 1
            if o['status'] == 'discharged':
                n_dis += 1
                by_backend[o['solver']] = by_backend.get(o['solver'], 0) + 1
                if len(samples) < 6 and o['kind'] != 'pre':
                    samples.append({'obligation': '%s/%s' % (u.name, o['label']), 'status': 'discharged', 'backend': o['solver'], 'secs': o['secs']})
            elif o['status'] == 'error':
                errors.append((u.name, o['label'] + ': ' + o['detail']))
            elif o['status'] == 'refuted':
                if u.level == 'property' and o['kind'] in ('post', 'pre'):
                    refuted_prop.append((u, o))
                else:
                    helper_open.append((u.name, o['label'], 'refuted'))
                    if u.level == 'property' and ('%s/%s' % (u.name, o['label'])) in baseline_names:
                        broken_helpers.append((u, o))
            elif o['status'] == 'skipped':
                undecided.append((u.name, o['label'] + ' ' + o['detail']))
            else:
                if u.level == 'property' and o['kind'] in ('post', 'pre') and ('%s/%s' % (u.name, o['label'])) in baseline_names:
                    unknown_baseline.append((u, o))
                elif u.level == 'property' and ('%s/%s' % (u.name, o['label'])) in baseline_names:
                    broken_helpers.append((u, o))
                undecided.append((u.name, o['label'] + ' unknown'))

    # ---- concrete side: replays, witnesses, twins
    os.makedirs(os.path.join(OUT, 'replays'), exist_ok=True)
    os.makedirs(os.path.join(OUT, 'evidence'), exist_ok=True)
    job = {'prop': prop, 'verif': VERIF, 'seed': seed, 'active_findings': sorted(F.ACTIVE), 'replays': [], 'witnesses': [],
           'twin_units': [u.name for u in _UNITS if u.level == 'property'], 'twin_cases': tier['twin_cases'], 'twin_seconds': tier['twin_seconds']}
    for u, o in refuted_prop:
        job['replays'].append({'unit': u.name, 'label': o['label'], 'inputs': o['model'] or {}})
    for k in known:
        wf = os.path.join(VERIF, k['witness'])
        try:
            w = json.load(open(wf))
            job['witnesses'].append({'id': k['id'], 'unit': w['unit'], 'label': w['label'], 'inputs': w['inputs']})
        except Exception as e:
            errors.append(('known-findings', 'cannot read witness %s: %s' % (wf, e)))
    conc = run_concrete_side(job)
    if conc is None:
        errors.append(('twin', 'concrete side failed to run'))
        conc = {'replays': [], 'witnesses': [], 'twins': [], 'errors': []}
    for e in conc.get('errors', []):
        errors.append(('twin:' + e['unit'], e['trace']))

    violations = []
    baseline = load_baseline()
    for (u, o), rep in zip(refuted_prop, conc['replays']):
        full = '%s/%s' % (u.name, o['label'])
        path = os.path.join('replays', '%s-%s.json' % (prop, hashlib.sha1(full.encode()).hexdigest()[:10]))
        rec = {'property': prop, 'unit': u.name, 'label': o['label'], 'obligation': full, 'inputs': o['model'], 'solver': o['solver'],
               'solver_secs': o['secs'], 'replay_result': rep}
        if rep.get('status') in ('ok', 'vacuous') and rep.get('evaluated') and rep.get('fails') and not (rep.get('fails_in_region') and o['meta'].get('finding') in F.ACTIVE):
            json.dump(rec, open(os.path.join(OUT, path), 'w'), indent=1)
            violations.append((path, full, ''))
        elif full in baseline and (o.get('ghost') or not rep.get('evaluated')):
            # no input to replay: the counter-model assigns havoc-ed state / values of uninterpreted spec functions that no input determines, or the clause
            # is stated at a loop cut and has no concrete counterpart (the concrete run never evaluates it, so it cannot have contradicted the model)
            rec['note'] = ('obligation was discharged on the unchanged tree and is now refuted; ' +
                           ('the counter-model assigns state that no input determines (%s)' % ', '.join(o['ghost']) if o.get('ghost') else
                            'the clause is stated at a loop cut and is not evaluated by a concrete run') + ', so there is no input to replay')
            json.dump(rec, open(os.path.join(OUT, path), 'w'), indent=1)
            violations.append((path, full, ' no-failing-input-found'))
        else:
            # the counter-model is over the unit's inputs alone (or the obligation is new): the same inputs satisfy the clause on the real code,
            # so the refutation is an imprecision of the engine's semantics, not a violation
            undecided.append((u.name, o['label'] + ' refuted by the solver but the model does not replay on the real code (engine imprecision)'))
    # an obligation that was discharged on the unchanged tree (committed baseline-obligations.txt) and is not any more,
    # with no replayable counter-model: reported as a violation of that named obligation, marked no-failing-input-found
    for u, o in unknown_baseline:
        full = '%s/%s' % (u.name, o['label'])
        if any(v[1] == full for v in violations):
            continue
        path = os.path.join('replays', '%s-%s.json' % (prop, hashlib.sha1(full.encode()).hexdigest()[:10]))
        json.dump({'property': prop, 'unit': u.name, 'label': o['label'], 'obligation': full, 'inputs': None, 'solver': o['solver'], 'solver_secs': o['secs'],
                   'solver_output': 'z3: unknown; cvc5: unknown/unsupported (%s)' % (o.get('detail') or 'no model'),
                   'note': 'this obligation is on the committed list of obligations discharged on the unchanged tree and can no longer be discharged; '
                           'the solver produced no counter-model (uninterpreted folds / quantifiers), so there is no input to replay'},
                  open(os.path.join(OUT, path), 'w'), indent=1)
        violations.append((path, full, ' no-failing-input-found'))
    twin_cases = twin_eval = 0
    twin_report = []
    for t in conc['twins']:
        twin_cases += t['cases']
        twin_eval += t['evaluated']
        twin_report.append({'name': t['unit'], 'bound': 'seeded boundary-biased inputs, seed=%d' % seed, 'cases': t['cases'], 'vacuous': t['vacuous'],
                            'clauses_evaluated': t['evaluated'], 'known_finding_hits': t['known']})
        for f in t['failures']:
            full = '%s/%s' % (t['unit'], f['label'])
            path = os.path.join('replays', '%s-twin-%s.json' % (prop, hashlib.sha1((full + json.dumps(f['inputs'], sort_keys=True)).encode()).hexdigest()[:10]))
            json.dump({'property': prop, 'unit': t['unit'], 'label': f['label'], 'obligation': full, 'inputs': f['inputs'], 'found_by': 'executable twin'},
                      open(os.path.join(OUT, path), 'w'), indent=1)
            # a proved clause that fails concretely means the engine is unsound on this unit: checker malfunction
            proved = any(o['label'] == f['label'] and o['status'] == 'discharged' for i, r in res.items() if _UNITS[i].name == t['unit'] for o in r['obligations'])
            anyopen = any(o['label'] == f['label'] and o['status'] != 'discharged' for i, r in res.items() if _UNITS[i].name == t['unit'] for o in r['obligations'])
            # ... unless the proof was conditional on a loop invariant / helper obligation of the same unit that is itself open
            conditional = any(o['status'] != 'discharged' for i, r in res.items() if _UNITS[i].name == t['unit'] for o in r['obligations'])
            if proved and not anyopen and not conditional and not _UNITS[names.index(t['unit'])].bounded:
                # the real code fails the clause on this input: that is a violation with its input, whatever the engine concluded.  The
                # engine's verdict for this unit is withdrawn (printed, and recorded in the evidence): typically state that outlives one
                # run of the unit (shared defaults, module-level objects) which a per-path proof does not see
                unsound.append((t['unit'], f['label'], path))
                undecided.append((t['unit'], 'ENGINE-UNSOUND: clause %s was discharged on every path but fails on the real code (%s): the proof of this unit is withdrawn' % (f['label'], path)))
            violations.append((path, full, ''))
    # a loop invariant (or other helper obligation) of a property-level unit that was discharged on the unchanged tree and is not any
    # more: every clause of that unit was proved under it, so the unit no longer establishes the property.  If neither a counter-model
    # nor the executable twin produced a failing input for the unit, the named obligation is reported without one.
    for u, o in broken_helpers:
        full = '%s/%s' % (u.name, o['label'])
        if any(v[1].startswith(u.name + '/') for v in violations):
            continue
        path = os.path.join('replays', '%s-%s.json' % (prop, hashlib.sha1(full.encode()).hexdigest()[:10]))
        json.dump({'property': prop, 'unit': u.name, 'label': o['label'], 'obligation': full, 'inputs': None, 'solver': o['solver'], 'solver_secs': o['secs'],
                   'solver_output': '%s (%s)' % (o['status'], o.get('detail') or 'counter-model is over havoc-ed loop state, not over inputs'),
                   'note': 'loop invariant / helper obligation inside a property-level unit; discharged on the unchanged tree (baseline-obligations.txt), '
                           'not any more; the clauses of this unit were proved under it'},
                  open(os.path.join(OUT, path), 'w'), indent=1)
        violations.append((path, full, ' no-failing-input-found'))
    known_lines = []
    for k, w in zip(known, conc['witnesses']):
        if w.get('status') in ('ok', 'vacuous') and w.get('evaluated', 0) == 0:
            errors.append(('known-findings', 'witness %s: its clause %r was never evaluated by unit %s (stale witness or renamed label)' % (k['id'], w['label'], w['unit'])))
        elif w.get('status') in ('ok', 'vacuous') and w.get('fails'):
            known_lines.append('KNOWN-FINDING: property=%s %s [%s]' % (prop, k['what'], k['id']))
        elif w.get('status') in ('error', 'no-such-unit'):
            errors.append(('known-findings', 'witness %s could not be replayed: %s' % (k['id'], w.get('trace', w.get('status')))))

    if a.list_discharged:
        for i in sorted(res):
            u = _UNITS[i]
            labs = {}
            for o in res[i]['obligations']:
                labs.setdefault(o['label'], []).append(o['status'])
            for lab, sts in sorted(labs.items()):
                if all(x == 'discharged' for x in sts):
                    print('BASELINE %s/%s' % (u.name, lab))
        return 0
    # ---- verdict
    wall = time.time() - t0
    for ln in known_lines:
        print(ln)
    # one line per obligation; a replayed / twin-found input takes precedence over the same obligation reported without one
    best = {}
    for path, full, suffix in violations:
        if full not in best or (best[full][1] and not suffix):
            best[full] = (path, suffix)
    seen_v = set(best)
    for full, (path, suffix) in sorted(best.items(), key=lambda kv: (bool(kv[1][1]), kv[0])):
        print('VIOLATION property=%s replay=%s obligation=%s%s' % (prop, path, full, suffix))
    for name, why in undecided:
        print('UNDECIDED %s: %s' % (name, why))
    for name, lab, why in helper_open:
        print('HELPER-OPEN %s/%s: %s' % (name, lab, why))
    for name, why in errors:
        print('CHECKER-ERROR %s: %s' % (name, why.strip().splitlines()[-1] if why.strip() else why))
        if a.v:
            print(why)
    if a.only:
        print('obligations %d discharged %d paths %s wall %.1fs' % (n_obl, n_dis, sum(r['paths'] for r in res.values()), wall))
        if a.v:
            for i in sorted(res):
                r = res[i]
                print(' ', r['unit'], 'paths', r['paths'], 'secs', r['secs'], r['out_of_reach'] or '')
                for o in r['obligations']:
                    if o['status'] != 'discharged':
                        print('     ', o['label'], o['status'], o['model'] if o['model'] and len(json.dumps(o['model'])) < 600 else '(model elided)')
        return 1 if violations else (3 if errors else 0)
    selfval = self_validation(prop) if (a.tier == 'thorough' and not a.only) else {'ran': False, 'why': 'thorough tier only'}
    for c in selfval.get('changes', []):
        if not c['reported']:
            errors.append(('self-validation', 'seeded change %s applied to a scratch copy of the unchanged tree was NOT reported by this check (exit %s)' % (c['id'], c['exit'])))
    _SELFVAL[0] = selfval
    proved_all = (n_obl > 0 and n_dis == n_obl and not undecided and not errors)
    level = 'proof' if proved_all else 'other'
    if getattr(mod, 'LEVEL', None):
        level = mod.LEVEL if proved_all else 'other'
    write_evidence(prop, a.tier, seed, level, res, n_obl, n_dis, by_backend, solver_secs, samples, twin_report, twin_cases, twin_eval,
                   known_lines, violations, undecided, helper_open, errors, reran, wall, mod)
    print('%s: obligations=%d discharged=%d undecided=%d twin_cases=%d known_findings=%d violations=%d wall=%.1fs level=%s' %
          (prop, n_obl, n_dis, len(undecided), twin_cases, len(known_lines), len(seen_v), wall, level))
    if violations:
        return 1          # a violation stands on its replayable input / named obligation, whatever else went wrong in the run
    if errors:
        return 3
    if undecided and twin_cases == 0:
        return 2
    return 0


def load_baseline():
    p = os.path.join(VERIF, 'baseline-obligations.txt')
    if not os.path.exists(p):
        return set()
    return set(l.strip() for l in open(p) if l.strip() and not l.startswith('#'))


_SELFVAL = [None]


def self_validation(prop):
    """thorough tier: every committed seeded change for this property (seeded/<prop>-*/patch.diff) is applied to a scratch copy of /repo
    (outside /repo and /verif, removed at once) and the quick check is run against the copy: it must report a violation.  Only done when
    /repo is the unchanged tree the baseline was taken from - on a changed tree the patches would be stacked on an unknown change."""
    import glob, shutil
    if os.environ.get('PYVC_REPO') or os.environ.get('PYVC_OUT'):
        return {'ran': False, 'why': 'sub-run'}
    try:
        head = subprocess.run(['git', '-C', '/repo', 'rev-parse', '--short', 'HEAD'], capture_output=True, text=True).stdout.strip()
        dirty = subprocess.run(['git', '-C', '/repo', 'status', '--porcelain', '--', 'pymodbus'], capture_output=True, text=True).stdout.strip()
        base = open(os.path.join(VERIF, 'baseline-obligations.txt')).readline()
    except Exception as e:
        return {'ran': False, 'why': 'cannot inspect /repo: %s' % e}
    if dirty or head not in base:
        return {'ran': False, 'why': 'the tree under check is not the unchanged tree the baseline was taken from (HEAD %s%s): seeded changes are not stacked on it' % (head, ', uncommitted changes' if dirty else '')}
    out = {'ran': True, 'changes': []}
    for pf in sorted(glob.glob(os.path.join(VERIF, 'seeded', prop + '-*', 'patch.diff'))):
        d = tempfile.mkdtemp(prefix='pyvc-sv-', dir='/var/tmp')
        try:
            shutil.copytree('/repo/pymodbus', os.path.join(d, 'pymodbus'))
            ap = subprocess.run(['patch', '-p1', '-s', '-d', d, '-i', pf], capture_output=True, text=True)
            if ap.returncode != 0:
                out['changes'].append({'id': os.path.basename(os.path.dirname(pf)), 'reported': True, 'exit': None, 'note': 'patch did not apply: ' + ap.stdout[-200:]})
                continue
            env = dict(os.environ)
            env['PYVC_REPO'], env['PYVC_OUT'] = d, os.path.join(d, 'out')
            t = time.time()
            r = subprocess.run([os.path.join(VERIF, 'check'), prop, '--tier', 'quick'], cwd=VERIF, env=env, capture_output=True, text=True, timeout=3600)
            lines = [l for l in r.stdout.splitlines() if l.startswith('VIOLATION')]
            out['changes'].append({'id': os.path.basename(os.path.dirname(pf)), 'reported': r.returncode == 1 and bool(lines), 'exit': r.returncode,
                                   'first_violation': lines[0][:300] if lines else None, 'secs': round(time.time() - t, 1)})
        finally:
            shutil.rmtree(d, ignore_errors=True)
    return out


def run_concrete_side(job):
    d = tempfile.mkdtemp(prefix='pyvc-', dir='/var/tmp')
    try:
        jf, of = os.path.join(d, 'job.json'), os.path.join(d, 'out.json')
        json.dump(job, open(jf, 'w'))
        env = dict(os.environ)
        env['PYTHONPATH'] = VERIF + ':' + os.environ.get('PYVC_REPO', '/repo')
        env.pop('PYTHONHOME', None)
        p = subprocess.run([VENV_PY, '-m', 'pyvc.twin', jf, of], cwd=VERIF, env=env, capture_output=True, text=True, timeout=3600)
        if p.returncode != 0 or not os.path.exists(of):
            sys.stderr.write(p.stdout[-3000:] + p.stderr[-3000:])
            return None
        return json.load(open(of))
    finally:
        import shutil
        shutil.rmtree(d, ignore_errors=True)


def do_replay(prop, path):
    rec = json.load(open(path if os.path.isabs(path) else os.path.join(VERIF, path)))
    from . import findings as F
    known, _ = parse_known()
    job = {'prop': prop, 'verif': VERIF, 'seed': 0, 'active_findings': [k['id'] for k in known if k.get('property') == prop],
           'replays': [{'unit': rec['unit'], 'label': rec['label'], 'inputs': rec.get('inputs') or {}}], 'witnesses': [], 'twin_units': []}
    conc = run_concrete_side(job)
    if conc is None:
        print('CHECKER-ERROR replay could not run')
        return 3
    r = conc['replays'][0]
    print(json.dumps(r, indent=1))
    if r.get('status') in ('ok', 'vacuous') and r.get('evaluated') and r.get('fails'):
        print('VIOLATION property=%s replay=%s obligation=%s/%s' % (prop, path, rec['unit'], rec['label']))
        return 1
    print('replay does not fail on the current tree')
    return 0


def write_evidence(prop, tier, seed, level, res, n_obl, n_dis, by_backend, solver_secs, samples, twin_report, twin_cases, twin_eval,
                   known_lines, violations, undecided, helper_open, errors, reran, wall, mod):
    from . import libmodels
    fu = {}
    assumed, unknown_calls, covers = set(), set(), 0
    paths = 0
    oor = []
    per_unit = []
    for i, r in sorted(res.items()):
        fu.update(r.get('functions', {}))
        assumed |= set(r.get('assumed_contracts', []))
        unknown_calls |= set(r.get('unknown_calls', []))
        paths += r['paths']
        if r['out_of_reach']:
            oor.append({'unit': r['unit'], 'reason': r['out_of_reach']})
        per_unit.append({'unit': r['unit'], 'kind': r['kind'], 'paths': r['paths'], 'obligations': len(r['obligations']),
                         'discharged': sum(1 for o in r['obligations'] if o['status'] == 'discharged'), 'secs': r['secs'],
                         'bounded': r.get('bounded', False), 'inlined_contracts': r.get('inlined_contracts', [])})
    verified_contracts = set(r['unit'][len('contract/'):] for r in res.values() if r['kind'] == 'contract' and not r['error'] and not r['out_of_reach']
                             and r['obligations'] and all(o['status'] == 'discharged' for o in r['obligations']))
    unchecked = sorted(assumed - verified_contracts)
    expl = ('Contract-based deductive verification by pyvc: verification conditions generated from the function bodies as they are in '
            '/repo on this run, discharged by z3 (cvc5 for z3 unknowns). %d obligations, %d discharged; %d paths. '
            'Bounded executable twins (never counted as proved): %d cases. ' % (n_obl, n_dis, paths, twin_cases))
    if undecided:
        expl += 'UNDECIDED obligations present: level downgraded from proof to other. '
    ev = {
        'property_id': prop, 'tier': tier, 'seed': seed, 'level': level,
        'coverage': {
            'obligations': n_obl, 'discharged': n_dis,
            'checker_cmd': './check %s --tier %s' % (prop, tier),
            'trusted_base': ['z3 5.1 / cvc5 1.0.3', 'pyvc AST->SMT translator (/verif/pyvc)', 'library models: ' + ', '.join(sorted(libmodels.USED)) if libmodels.USED else 'library models (pyvc/libmodels.py)',
                             'spec functions in /verif/spec (transcribed from MODBUS AP v1.1b3 / serial line spec)'] + getattr(mod, 'TRUSTED', []),
            'explanation': expl,
            'evaluations': max(1, n_obl + twin_eval), 'distinct_nontrivial': max(2, n_obl),
            'rule': 'one obligation per (contract clause x feasible path); twin cases are seeded boundary-biased concrete inputs, distinct by input vector',
            'samples': samples or [{'note': 'no discharged obligation to sample'}],
            'functions_under_contract': fu,
            'obligations_by_backend': by_backend, 'solver_seconds': round(solver_secs, 2), 'paths': paths,
            'units': per_unit,
            'bounded_obligations': twin_report,
            'out_of_reach': oor,
            'undecided': [{'unit': n, 'why': w} for n, w in undecided],
            'helper_obligations_open': [{'unit': n, 'label': l, 'why': w} for n, l, w in helper_open],
            'reverified_with_helper_inlined': reran,
            'contracts_assumed_at_call_sites': sorted(assumed),
            'contracts_assumed_but_not_verified_on_this_run': unchecked,
            'unknown_calls_havoced': sorted(unknown_calls),
            'known_findings_reproduced': known_lines,
            'vacuity': {'units_with_zero_obligations': [n for n, w in errors if 'vacuity' in w]},
            'self_validation': _SELFVAL[0],
            'exhaustive': False,
        },
        'assumptions': ['A1 int = mathematical integers', 'A2 // and % exact (Euclidean div for positive divisors, floor otherwise)',
                        'A3 truthiness table', 'A4 bytes/list indexing and slicing semantics', 'A5 attribute lookup via static MRO',
                        'A6 distinct object parameters do not alias unless the unit says so', 'A7 left-to-right evaluation, dict insertion order',
                        'A8 only Exception subclasses; exception hierarchy table', 'A9 single thread inside a function',
                        'A10 module-level names bound as the source binds them; six/compat shims = their Python 3 meaning',
                        'effects of logging dropped (argument expressions still evaluated); __str__/__repr__ total and pure'] + getattr(mod, 'ASSUMPTIONS', []),
        'wall_s': round(wall, 2), 'violations': len(set(v[1] for v in violations)),
    }
    json.dump(ev, open(os.path.join(OUT, 'evidence', prop + '.json'), 'w'), indent=1)


if __name__ == '__main__':
    sys.exit(main())
