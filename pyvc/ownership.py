"""Ownership / frame checker (DESIGN 2.12): lock-invariant obligations a permission-based verifier would generate,
decided on the AST and the intra-package call graph of the *current* /repo sources.  Pure python (no solver): usable
from both E modes.  Every function returns (ok, detail)."""
import ast, os

REPO = os.environ.get('PYVC_REPO', '/repo')


def _module(mod):
    base = os.path.join(REPO, *mod.split('.'))
    path = base + '.py' if os.path.isfile(base + '.py') else os.path.join(base, '__init__.py')
    return ast.parse(open(path).read())


def _func(qual):
    """'pkg.mod.Class.meth' / 'pkg.mod.func' -> (module ast, class node or None, function node)"""
    parts = qual.split('.')
    for cut in range(len(parts) - 1, 0, -1):
        mod = '.'.join(parts[:cut])
        base = os.path.join(REPO, *mod.split('.'))
        if os.path.isfile(base + '.py') or os.path.isfile(os.path.join(base, '__init__.py')):
            tree = _module(mod)
            rest = parts[cut:]
            if len(rest) == 1:
                for n in tree.body:
                    if isinstance(n, (ast.FunctionDef, ast.AsyncFunctionDef)) and n.name == rest[0]:
                        return tree, None, n
            else:
                for c in tree.body:
                    if isinstance(c, ast.ClassDef) and c.name == rest[0]:
                        for n in c.body:
                            if isinstance(n, (ast.FunctionDef, ast.AsyncFunctionDef)) and n.name == rest[1]:
                                return tree, c, n
            return tree, None, None
    return None, None, None


def _body(fn):
    b = fn.body
    if b and isinstance(b[0], ast.Expr) and isinstance(b[0].value, ast.Constant) and isinstance(b[0].value.value, str):
        b = b[1:]
    return b


def _is_lock_with(stmt, lock_expr):
    return isinstance(stmt, ast.With) and any(ast.unparse(i.context_expr) == lock_expr for i in stmt.items)


def lock_created_once(cls_qual, field, ctors=('RLock', 'Lock', 'threading.RLock', 'threading.Lock')):
    """the lock field is assigned exactly once in the class, in __init__, from a fresh lock constructor"""
    mod, _, cname = cls_qual.rpartition('.')
    tree = _module(mod)
    sites = []
    for c in tree.body:
        if isinstance(c, ast.ClassDef) and c.name == cname:
            for fn in c.body:
                if isinstance(fn, (ast.FunctionDef, ast.AsyncFunctionDef)):
                    for n in ast.walk(fn):
                        tg = n.targets if isinstance(n, ast.Assign) else [n.target] if isinstance(n, (ast.AugAssign, ast.AnnAssign)) else []
                        for t in tg:
                            if isinstance(t, ast.Attribute) and t.attr == field and isinstance(t.value, ast.Name) and t.value.id == 'self':
                                sites.append((fn.name, ast.unparse(n.value) if getattr(n, 'value', None) is not None else ''))
    ok = len(sites) == 1 and sites[0][0] == '__init__' and any(sites[0][1] == c + '()' for c in ctors)
    return ok, 'assignments of self.%s: %r' % (field, sites)


def body_is_one_with(func_qual, lock_expr):
    """the whole body of the function is a single `with <lock_expr>:` statement"""
    _, _, fn = _func(func_qual)
    if fn is None:
        return False, 'function %s not found' % func_qual
    b = _body(fn)
    ok = len(b) == 1 and _is_lock_with(b[0], lock_expr)
    return ok, 'top-level statements: %s' % [type(s).__name__ + (':' + ast.unparse(s.items[0].context_expr) if isinstance(s, ast.With) else '') for s in b]


def calls_outside_lock(func_qual, lock_expr):
    """calls made by the function that are not lexically inside `with <lock_expr>`"""
    _, _, fn = _func(func_qual)
    out = []

    def visit(node, guarded):
        for ch in ast.iter_child_nodes(node):
            if isinstance(ch, (ast.FunctionDef, ast.AsyncFunctionDef, ast.Lambda, ast.ClassDef)):
                continue
            g = guarded or _is_lock_with(ch, lock_expr)
            if isinstance(ch, ast.Call) and not guarded:
                out.append((ch.lineno, ast.unparse(ch.func)))
            visit(ch, g)
    if fn is not None:
        for s in _body(fn):
            visit(ast.Module(body=[s], type_ignores=[]), False)
    return out


def region_functions(entry_qual, lock_expr, cls_quals):
    """names of methods (of the given classes) reachable from the guarded region of the entry function"""
    methods = {}
    for cq in cls_quals:
        mod, _, cname = cq.rpartition('.')
        for c in _module(mod).body:
            if isinstance(c, ast.ClassDef) and c.name == cname:
                for fn in c.body:
                    if isinstance(fn, (ast.FunctionDef, ast.AsyncFunctionDef)):
                        methods.setdefault(fn.name, []).append((cq, fn))
    _, _, entry = _func(entry_qual)
    reach, work = set(), []
    for s in _body(entry):
        if _is_lock_with(s, lock_expr):
            work.append(s)
    seen_nodes = []
    while work:
        node = work.pop()
        for n in ast.walk(node):
            if isinstance(n, ast.Call) and isinstance(n.func, ast.Attribute) and n.func.attr in methods and n.func.attr not in reach:
                reach.add(n.func.attr)
                for cq, fn in methods[n.func.attr]:
                    work.append(fn)
            elif isinstance(n, ast.Attribute) and n.attr in methods and n.attr not in reach and isinstance(getattr(n, 'ctx', None), ast.Load):
                # method referenced as a value (partial(self.addTransaction, ...))
                reach.add(n.attr)
                for cq, fn in methods[n.attr]:
                    work.append(fn)
    return reach, methods


def guarded_only(entry_qual, lock_expr, cls_quals, guarded_methods, search_modules, receivers=('transaction',)):
    """every call of a guarded method anywhere in the listed modules is inside the guarded region of the entry function
    or inside a method that is itself reachable only from that region"""
    reach, methods = region_functions(entry_qual, lock_expr, cls_quals)
    emod, ecls, entry = _func(entry_qual)
    bad = []
    for mod in search_modules:
        tree = _module(mod)
        for c in tree.body:
            fns = []
            if isinstance(c, ast.ClassDef):
                fns = [(c.name, f) for f in c.body if isinstance(f, (ast.FunctionDef, ast.AsyncFunctionDef))]
            elif isinstance(c, (ast.FunctionDef, ast.AsyncFunctionDef)):
                fns = [(None, c)]
            for cname, fn in fns:
                inside_region_fn = (fn.name in reach)
                is_entry = (fn is entry) or (fn.name == entry.name and cname is not None and any(q.endswith('.' + cname) for q in cls_quals) and ast.dump(fn) == ast.dump(entry))

                def visit(node, guarded):
                    for ch in ast.iter_child_nodes(node):
                        if isinstance(ch, (ast.FunctionDef, ast.AsyncFunctionDef, ast.ClassDef)):
                            continue
                        g = guarded or (is_entry and _is_lock_with(ch, lock_expr))
                        if isinstance(ch, ast.Call) and isinstance(ch.func, ast.Attribute) and ch.func.attr in guarded_methods and not g and not inside_region_fn:
                            recv = ast.unparse(ch.func.value)
                            in_cls = cname is not None and any(q.endswith('.' + cname) for q in cls_quals)
                            # a guarded method of the manager: called on self inside a manager class, or on <x>.transaction elsewhere
                            if not ((recv == 'self' and in_cls) or any(recv.endswith(r) for r in receivers)):
                                visit(ch, g)
                                continue
                            bad.append('%s.%s:%d %s' % (cname, fn.name, ch.lineno, ast.unparse(ch.func)))
                        visit(ch, g)
                visit(fn, False)
    return not bad, 'unguarded call sites: %r' % bad


def no_other_lock(func_quals, lock_expr):
    """no second lock is taken and nothing waits for another thread inside the region functions (deadlock freedom)"""
    bad = []
    for q in func_quals:
        _, _, fn = _func(q)
        if fn is None:
            continue
        for n in ast.walk(fn):
            if isinstance(n, ast.With):
                for i in n.items:
                    if ast.unparse(i.context_expr) != lock_expr:
                        bad.append('%s: with %s' % (q, ast.unparse(i.context_expr)))
            if isinstance(n, ast.Call) and isinstance(n.func, ast.Attribute) and n.func.attr in ('acquire', 'join', 'wait'):
                bad.append('%s: %s' % (q, ast.unparse(n.func)))
    return not bad, 'other synchronisation inside the region: %r' % bad


def no_await_or_yield(func_qual):
    _, _, fn = _func(func_qual)
    if fn is None:
        return False, 'not found'
    bad = [type(n).__name__ for n in ast.walk(fn) if isinstance(n, (ast.Await, ast.Yield, ast.YieldFrom))]
    return not bad, 'suspension points: %r' % bad


def assigned_from_constructor_in(func_qual, field):
    """self.<field> is assigned in the function from a call expression (a fresh object per invocation)"""
    _, _, fn = _func(func_qual)
    if fn is None:
        return False, 'not found'
    sites = []
    for n in ast.walk(fn):
        if isinstance(n, ast.Assign):
            for t in n.targets:
                if isinstance(t, ast.Attribute) and t.attr == field:
                    sites.append(ast.unparse(n.value))
    return (len(sites) == 1 and sites[0].endswith(')')), 'assignments: %r' % sites


def runs_under_lock(func_qual, callee_attr):
    """every call of .<callee_attr>(...) in the function is lexically inside some `with <lock>` statement"""
    _, _, fn = _func(func_qual)
    bad = []

    def visit(node, guarded):
        for ch in ast.iter_child_nodes(node):
            g = guarded or isinstance(ch, ast.With)
            if isinstance(ch, ast.Call) and isinstance(ch.func, ast.Attribute) and ch.func.attr == callee_attr and not guarded:
                bad.append(ch.lineno)
            visit(ch, g)
    if fn is not None:
        visit(fn, False)
    return not bad, 'calls of .%s() outside any lock: lines %r' % (callee_attr, bad)


def calls_reachable(func_qual, depth=4):
    """call expressions (unparsed callee text) made by a method and, transitively, by the self.<method>() it calls in the same class"""
    tree, cls, fn = _func(func_qual)
    if fn is None:
        return None
    seen, out, work = set(), [], [(fn, 0)]
    while work:
        f, d = work.pop()
        if f.name in seen:
            continue
        seen.add(f.name)
        for n in ast.walk(f):
            if isinstance(n, ast.Call):
                name = ast.unparse(n.func)
                out.append((f.name, n.lineno, name))
                if cls is not None and d < depth and isinstance(n.func, ast.Attribute) and isinstance(n.func.value, ast.Name) and n.func.value.id == 'self':
                    for m in cls.body:
                        if isinstance(m, (ast.FunctionDef, ast.AsyncFunctionDef)) and m.name == n.func.attr:
                            work.append((m, d + 1))
    return out


def no_transport_reads(func_qual, readers=('recv', 'recvfrom', 'recv_into', 'read', 'readline', 'select')):
    """the function (and the self-methods it calls) never reads from the transport: no call whose last name component is a receive primitive"""
    calls = calls_reachable(func_qual)
    if calls is None:
        return True, 'no such function (nothing runs)'
    bad = [(f, ln, c) for (f, ln, c) in calls if c.split('.')[-1] in readers]
    return (not bad), ('reads from the transport: %r' % bad if bad else 'no receive primitive among %d calls' % len(calls))


def loop_keeps(func_qual, names, ordinal=0):
    """frame condition on a loop, decided on the AST: the loop (the ordinal-th while/for of the function, nested ones included) assigns none of `names`"""
    _, _, fn = _func(func_qual)
    if fn is None:
        return False, 'no such function'
    loops = [n for n in ast.walk(fn) if isinstance(n, (ast.While, ast.For))]
    loops.sort(key=lambda n: (n.lineno, n.col_offset))
    if ordinal >= len(loops):
        return False, 'function has %d loops' % len(loops)
    lp = loops[ordinal]
    assigned = set()
    for n in ast.walk(lp):
        targets = []
        if isinstance(n, ast.Assign):
            targets = n.targets
        elif isinstance(n, (ast.AugAssign, ast.AnnAssign)):
            targets = [n.target]
        elif isinstance(n, (ast.For, ast.comprehension)):
            targets = [n.target]
        elif isinstance(n, ast.NamedExpr):
            targets = [n.target]
        for t in targets:
            for x in ast.walk(t):
                if isinstance(x, ast.Name):
                    assigned.add(x.id)
    hit = sorted(assigned & set(names))
    return (not hit), ('loop at line %d assigns %r' % (lp.lineno, hit) if hit else 'loop at line %d assigns %r only' % (lp.lineno, sorted(assigned)))


def loop_leaves_when(func_qual, test_text, ordinal=0):
    """the loop body contains, at its top level, `if <test_text>: break` (text compared after unparsing)"""
    _, _, fn = _func(func_qual)
    if fn is None:
        return False, 'no such function'
    loops = [n for n in ast.walk(fn) if isinstance(n, (ast.While, ast.For))]
    loops.sort(key=lambda n: (n.lineno, n.col_offset))
    if ordinal >= len(loops):
        return False, 'function has %d loops' % len(loops)
    for s in loops[ordinal].body:
        if isinstance(s, ast.If) and ast.unparse(s.test) == test_text and any(isinstance(b, ast.Break) for b in s.body):
            return True, 'line %d' % s.lineno
    return False, 'no top-level `if %s: break` in the loop at line %d' % (test_text, loops[ordinal].lineno)


def loop_has_fixed_deadline(func_qual, ordinal=0, clock=('time.time', 'time.monotonic')):
    """the loop leaves by `if <now> > <deadline>: break` (or >=) at the top level of its body, where <now> is read from the clock inside the
    loop (a name assigned from time.time() in the loop, or the call itself) and <deadline> is a name the loop never assigns.
    Names are found, not prescribed."""
    _, _, fn = _func(func_qual)
    if fn is None:
        return False, 'no such function'
    loops = [n for n in ast.walk(fn) if isinstance(n, (ast.While, ast.For))]
    loops.sort(key=lambda n: (n.lineno, n.col_offset))
    if ordinal >= len(loops):
        return False, 'function has %d loops' % len(loops)
    lp = loops[ordinal]
    assigned, from_clock = set(), set()
    for n in ast.walk(lp):
        if isinstance(n, ast.Assign):
            for t in n.targets:
                for x in ast.walk(t):
                    if isinstance(x, ast.Name):
                        assigned.add(x.id)
                        if isinstance(n.value, ast.Call) and ast.unparse(n.value.func) in clock and isinstance(t, ast.Name):
                            from_clock.add(x.id)
        elif isinstance(n, (ast.AugAssign, ast.AnnAssign)):
            for x in ast.walk(n.target):
                if isinstance(x, ast.Name):
                    assigned.add(x.id)
    for s in lp.body:
        if isinstance(s, ast.If) and isinstance(s.test, ast.Compare) and len(s.test.ops) == 1 and isinstance(s.test.ops[0], (ast.Gt, ast.GtE)) \
                and any(isinstance(b, ast.Break) for b in s.body):
            left, right = s.test.left, s.test.comparators[0]
            now_ok = (isinstance(left, ast.Name) and left.id in from_clock) or (isinstance(left, ast.Call) and ast.unparse(left.func) in clock)
            if now_ok and isinstance(right, ast.Name) and right.id not in assigned:
                return True, 'line %d: leaves when %s exceeds %s, which the loop does not assign' % (s.lineno, ast.unparse(left), right.id)
            if now_ok and isinstance(right, ast.Name):
                return False, 'line %d: the deadline %s is re-assigned inside the loop' % (s.lineno, right.id)
    return False, 'no `if <clock value> > <fixed deadline>: break` at the top level of the loop at line %d' % lp.lineno


def always_truthy(cls_qual):
    """instances of the class are true in a boolean context whatever their state: neither the class nor a repository base class defines
    __bool__, __len__ or __nonzero__ (python's rule for truth testing); external bases other than object are not looked into"""
    from .resolver import Repo, ClassInfo
    c = Repo.get().cls(cls_qual)
    if c is None:
        return False, 'no such class'
    for k in c.mro():
        if not isinstance(k, ClassInfo):
            if getattr(k, 'qual', 'object') not in ('object', 'builtins.object'):
                return False, 'external base %r not inspected' % (k,)
            continue
        for n in k.node.body:
            if isinstance(n, (ast.FunctionDef, ast.AsyncFunctionDef)) and n.name in ('__bool__', '__len__', '__nonzero__'):
                return False, '%s defines %s: an instance can be false' % (k.qualname, n.name)
            if isinstance(n, ast.Assign) and any(isinstance(t, ast.Name) and t.id in ('__bool__', '__len__', '__nonzero__') for t in n.targets):
                return False, '%s assigns %s' % (k.qualname, n.targets[0].id)
    return True, 'no __bool__/__len__ in %s' % ', '.join(getattr(k, 'qualname', 'object') for k in c.mro())


def keeps_argument(func_qual, param, attr, arg_cls_qual):
    """the function stores the object it is given as `param` in self.<attr>: the (single) assignment to self.<attr> has the value `param`,
    `param if param is not None else ...`, or `param or ...` - the last keeps the caller's object only if instances of its class are
    always truthy.  -> (True | False | None, detail); None: the assignment has another shape (undecided)"""
    _, _, fn = _func(func_qual)
    if fn is None:
        return None, 'no such function'
    hits = []
    for n in ast.walk(fn):
        if isinstance(n, ast.Assign):
            for t in n.targets:
                if isinstance(t, ast.Attribute) and isinstance(t.value, ast.Name) and t.value.id == 'self' and t.attr == attr:
                    hits.append(n)
    if len(hits) != 1:
        return None, '%d assignments to self.%s' % (len(hits), attr)
    v = hits[0].value
    is_param = lambda e: isinstance(e, ast.Name) and e.id == param
    if is_param(v):
        return True, 'self.%s = %s' % (attr, param)
    if isinstance(v, ast.IfExp) and is_param(v.body) and isinstance(v.test, ast.Compare) and is_param(v.test.left) and len(v.test.ops) == 1 \
            and isinstance(v.test.ops[0], ast.IsNot) and isinstance(v.test.comparators[0], ast.Constant) and v.test.comparators[0].value is None:
        return True, 'self.%s = %s if %s is not None else ...' % (attr, param, param)
    if isinstance(v, ast.BoolOp) and isinstance(v.op, ast.Or) and is_param(v.values[0]):
        ok, why = always_truthy(arg_cls_qual)
        return ok, 'self.%s = %s or ...; %s' % (attr, param, why)
    return None, 'self.%s is assigned %s' % (attr, ast.unparse(v))
