"""pyvc value model (symbolic side).  Needs z3; import only under python3-vt.

SInt / SBool wrap z3 Int / Bool terms and overload the Python operators with
Python's integer semantics (DESIGN 2.3, assumptions A1-A3).  Seq is a bytes /
list value given by a length and an element function (index term -> term); no
array or quantifier is introduced by slicing, concatenation, append or slice
assignment - only havoc'd values (loop cuts, callee results) are backed by an
uninterpreted array.
"""
import z3

_CUR = [None]          # current engine State (set by engine.explore)


def cur():
    return _CUR[0]


class Unsupported(Exception):
    """construct outside the subset: the function is out of reach (never a verdict)"""


# ----------------------------------------------------------------------------- ints / bools
def is_sym(v):
    return isinstance(v, (SInt, SBool))


def zint(v):
    """python/SInt/SBool -> z3 Int term"""
    if isinstance(v, SInt):
        return v.t
    if isinstance(v, SBool):
        return z3.If(v.t, z3.IntVal(1), z3.IntVal(0))
    if isinstance(v, bool):
        return z3.IntVal(1 if v else 0)
    if isinstance(v, int):
        return z3.IntVal(v)
    if isinstance(v, z3.ArithRef):
        return v
    if isinstance(v, z3.BoolRef):
        return z3.If(v, z3.IntVal(1), z3.IntVal(0))
    raise Unsupported('not an integer value: %r' % (v,))


def zbool(v):
    """truthiness of a value as a z3 Bool term (or python bool when concrete)"""
    if isinstance(v, SBool):
        return v.t
    if isinstance(v, SInt):
        return v.t != 0
    if isinstance(v, bool):
        return z3.BoolVal(v)
    if isinstance(v, int):
        return z3.BoolVal(v != 0)
    if isinstance(v, z3.BoolRef):
        return v
    if isinstance(v, z3.ArithRef):
        return v != 0
    if v is None:
        return z3.BoolVal(False)
    if isinstance(v, Seq):
        if isinstance(v.n, int):
            return z3.BoolVal(v.n > 0)
        return v.n > 0
    if isinstance(v, SMap):
        k = z3.Int(cur().fresh_name('q'))
        return z3.Exists([k], zbool(v.has(mk(k))))
    if isinstance(v, (list, tuple, dict, str, bytes, set, frozenset)):
        return z3.BoolVal(len(v) > 0)
    return z3.BoolVal(True)        # objects, classes, functions (A3)


_BVMEMO = {}
_BVKEEP = []


def contains_bv(t):
    """does the term mention a bit-vector operation (memoised by term id; terms are hash-consed)"""
    i = t.get_id()
    r = _BVMEMO.get(i)
    if r is not None:
        return r
    if z3.is_bv(t) or (z3.is_app(t) and t.decl().kind() == z3.Z3_OP_BV2INT):
        r = True
    elif z3.is_quantifier(t):
        r = contains_bv(t.body())
    elif z3.is_app(t):
        r = any(contains_bv(c) for c in t.children())
    else:
        r = False
    if len(_BVMEMO) > 200000:
        _BVMEMO.clear()
        _BVKEEP.clear()
    _BVMEMO[i] = r
    _BVKEEP.append(t)        # keep the term alive: ids of collected terms are recycled
    return r


def ssimplify(t):
    """z3.simplify, except on terms that carry bit-vector operations"""
    return t if contains_bv(t) else z3.simplify(t)


def mkbv(z):
    """SInt for the unsigned value of the BV term z"""
    return SInt(z3.BV2Int(z, False), z)


def _resize(z, W):
    w = z.size()
    if w == W:
        return z
    return z3.ZeroExt(W - w, z) if w < W else z3.Extract(W - 1, 0, z)


def _ispow2(m):
    return m > 0 and (m & (m - 1)) == 0


def as_bv(t):
    """if the Int term t is bit-vector shaped (bv2int, or div/mod by 2^k / ite of such), the BV term it is the
    unsigned value of; else None.  Keeps CRC-style code in the BV theory instead of mixing Int and BV."""
    if not z3.is_app(t):
        return None
    k = t.decl().kind()
    if k == z3.Z3_OP_BV2INT:
        return t.arg(0)
    if k in (z3.Z3_OP_MOD, z3.Z3_OP_IDIV) and z3.is_int_value(t.arg(1)) and _ispow2(t.arg(1).as_long()):
        z = as_bv(t.arg(0))
        if z is None:
            return None
        sh = t.arg(1).as_long().bit_length() - 1
        w = z.size()
        if k == z3.Z3_OP_IDIV:
            return z3.LShR(z, sh) if sh < w else z3.BitVecVal(0, w)
        if sh >= w:
            return z
        return z3.ZeroExt(w - sh, z3.Extract(sh - 1, 0, z)) if sh > 0 else z3.BitVecVal(0, w)
    if k == z3.Z3_OP_ITE:
        a, b = as_bv(t.arg(1)), as_bv(t.arg(2))
        if a is None and z3.is_int_value(t.arg(1)) and b is not None and 0 <= t.arg(1).as_long() < 2 ** b.size():
            a = z3.BitVecVal(t.arg(1).as_long(), b.size())
        if b is None and z3.is_int_value(t.arg(2)) and a is not None and 0 <= t.arg(2).as_long() < 2 ** a.size():
            b = z3.BitVecVal(t.arg(2).as_long(), a.size())
        if a is not None and b is not None:
            if a.size() < b.size(): a = z3.ZeroExt(b.size() - a.size(), a)
            if b.size() < a.size(): b = z3.ZeroExt(a.size() - b.size(), b)
            return z3.If(t.arg(0), a, b)
    return None


def _bv_norm(t):
    """normalise bit-vector shaped Int terms to bv2int(<bv term>); comparisons of such terms to BV comparisons"""
    if z3.is_int(t):
        if z3.is_app(t) and t.decl().kind() == z3.Z3_OP_BV2INT:
            return t
        z = as_bv(t)
        if z is not None:
            return z3.BV2Int(z3.simplify(z), False)
        return t
    if z3.is_bool(t) and z3.is_app(t) and t.decl().kind() in (z3.Z3_OP_EQ, z3.Z3_OP_DISTINCT) and t.num_args() == 2 and z3.is_int(t.arg(0)):
        a, b = t.arg(0), t.arg(1)
        za, zb = as_bv(a), as_bv(b)
        if za is not None and zb is None and z3.is_int_value(b):
            v = b.as_long()
            r = (za == z3.BitVecVal(v, za.size())) if 0 <= v < 2 ** za.size() else z3.BoolVal(False)
        elif zb is not None and za is None and z3.is_int_value(a):
            v = a.as_long()
            r = (zb == z3.BitVecVal(v, zb.size())) if 0 <= v < 2 ** zb.size() else z3.BoolVal(False)
        elif za is not None and zb is not None:
            if za.size() < zb.size(): za = z3.ZeroExt(zb.size() - za.size(), za)
            if zb.size() < za.size(): zb = z3.ZeroExt(za.size() - zb.size(), zb)
            r = za == zb
        else:
            return t
        return r if t.decl().kind() == z3.Z3_OP_EQ else z3.Not(r)
    return t


def mk(t):
    """z3 term -> SInt/SBool or python constant when the term is a literal"""
    if isinstance(t, (int, bool)) or t is None:
        return t
    if isinstance(t, (SInt, SBool)):
        return t
    if contains_bv(t):
        # z3.simplify expands bv2int of xor/concat terms into sums of slices: keep BV-carrying terms as built
        if z3.is_bool(t):
            return SBool(t)
        z = t.arg(0) if (z3.is_app(t) and t.decl().kind() == z3.Z3_OP_BV2INT) else None
        return SInt(t, z)
    t = z3.simplify(t)
    if z3.is_int_value(t):
        return t.as_long()
    if z3.is_true(t):
        return True
    if z3.is_false(t):
        return False
    if z3.is_bool(t):
        return SBool(t)
    return SInt(t)


def _pow2m1(c):
    return c >= 0 and (c & (c + 1)) == 0


BVW = 32   # width used for generic bitwise operators on non-constant operands (range-checked)


def _bitop(op, a, b):
    """a op b for op in & | ^ on (possibly symbolic) ints"""
    ca, cb = isinstance(a, int), isinstance(b, int)
    if ca and cb:
        return {'&': a & b, '|': a | b, '^': a ^ b}[op]
    if isinstance(a, (SBool, bool)) and isinstance(b, (SBool, bool)):
        x, y = zbool(a), zbool(b)
        return mk({'&': z3.And(x, y), '|': z3.Or(x, y), '^': z3.Xor(x, y)}[op])
    if op == '|' and not (isinstance(a, SInt) and a.bv is not None) and not (isinstance(b, SInt) and b.bv is not None):
        # (h * 2^k) | l  with 0 <= l < 2^k and h >= 0 is h * 2^k + l (disjoint bits): stays in linear arithmetic
        st = cur()
        for p_, q_ in ((a, b), (b, a)):
            pz = ssimplify(zint(p_))
            c = None
            if z3.is_int_value(pz) and pz.as_long() >= 0:
                v = pz.as_long()
                c = (v & -v) if v else None
            elif z3.is_app(pz) and pz.decl().kind() == z3.Z3_OP_MUL and pz.num_args() == 2 and z3.is_int_value(pz.arg(0)) and _ispow2(pz.arg(0).as_long()):
                c = pz.arg(0).as_long()
            if c and st is not None:
                qz = zint(q_)
                if st.provable(z3.And(qz >= 0, qz < c, pz >= 0)):
                    return mk(pz + qz)
    if op == '^':
        # x ^ (2^k - 1) for 0 <= x < 2^k is (2^k - 1) - x: stays in linear arithmetic
        for c, o in ((b, a), (a, b)):
            if isinstance(c, int) and not isinstance(c, bool) and _pow2m1(c) and c > 0:
                st = cur()
                oz = zint(o)
                if st is not None and st.provable(z3.And(oz >= 0, oz <= c)):
                    return mk(c - oz)
    if op == '&':
        if cb and _pow2m1(b):
            return _arith('%', a, b + 1)
        if ca and _pow2m1(a):
            return _arith('%', b, a + 1)
        if cb and b > 0 and (b & (b - 1)) == 0:          # single bit
            return mk(((zint(a) / b) % 2) * b)
        if cb and b >= 0:
            lo = (b & -b)
            if _pow2m1(b // lo):                              # contiguous mask such as 0xff00
                return mk(((zint(a) / lo) % (b // lo + 1)) * lo)
    st = cur()
    x, y = zint(a), zint(b)

    def known_width(v):
        if isinstance(v, bool):
            return 1
        if isinstance(v, int):
            return max(1, v.bit_length()) if v >= 0 else None
        if isinstance(v, SInt) and v.bv is not None:
            return v.bv.size()
        return None
    wa, wb = known_width(a), known_width(b)
    W = None
    if wa is not None and wb is not None:
        W = max(wa, wb)
        W = 8 if W <= 8 else 16 if W <= 16 else 32 if W <= 32 else 64
    elif st is not None:
        base = max(wa or 0, wb or 0)
        unknown = [t for t, w in ((x, wa), (y, wb)) if w is None]
        for w in (8, 16, 32):
            if w < base:
                continue
            if all(st.provable(z3.And(t >= 0, t < 2 ** w)) for t in unknown):
                W = w
                break
        if W is None and op == '&':
            # python & on a negative operand is two's complement with infinite sign extension: exact in W bits
            # as soon as the other operand is within 0 .. 2^W-1 (int2bv reduces modulo 2^W)
            for w in (16, 32):
                if st.provable(z3.And(x >= -(2 ** w), x < 2 ** w, y >= -(2 ** w), y < 2 ** w)) and \
                        (st.provable(z3.And(x >= 0, x < 2 ** w)) or st.provable(z3.And(y >= 0, y < 2 ** w))):
                    W = w
                    break
    if W is None:
        raise Unsupported('bitwise %s on operands not provably within 0..2^%d' % (op, BVW))
    def bvof(v, t):
        if isinstance(v, SInt) and v.bv is not None:
            return _resize(v.bv, W) if v.bv.size() <= W or True else None
        return tobv(t, W)
    bx, by = bvof(a, x), bvof(b, y)
    r = {'&': bx & by, '|': bx | by, '^': bx ^ by}[op]
    return mkbv(r)
    return mk(z3.BV2Int(r, False))


def tobv(t, W):
    """int2bv pushed to the leaves: int2bv is a ring homomorphism modulo 2^W, so +, -, * by constants,
    ite, bv2int and `mod 2^k` (k >= W) translate structurally; anything else becomes an int2bv leaf."""
    t = ssimplify(t)
    if z3.is_int_value(t):
        return z3.BitVecVal(t.as_long() % (2 ** W), W)
    k = t.decl().kind() if z3.is_app(t) else None
    if k == z3.Z3_OP_ADD:
        acc = tobv(t.arg(0), W)
        for i in range(1, t.num_args()):
            acc = acc + tobv(t.arg(i), W)
        return acc
    if k == z3.Z3_OP_SUB:
        acc = tobv(t.arg(0), W)
        for i in range(1, t.num_args()):
            acc = acc - tobv(t.arg(i), W)
        return acc
    if k == z3.Z3_OP_UMINUS:
        return -tobv(t.arg(0), W)
    if k == z3.Z3_OP_MUL and t.num_args() == 2 and (z3.is_int_value(t.arg(0)) or z3.is_int_value(t.arg(1))):
        return tobv(t.arg(0), W) * tobv(t.arg(1), W)
    if k == z3.Z3_OP_ITE:
        return z3.If(t.arg(0), tobv(t.arg(1), W), tobv(t.arg(2), W))
    if k == z3.Z3_OP_BV2INT:
        z = t.arg(0)
        w = z.size()
        if w == W:
            return z
        if w < W:
            return z3.ZeroExt(W - w, z)
        return z3.Extract(W - 1, 0, z)
    if k == z3.Z3_OP_MOD and z3.is_int_value(t.arg(1)):
        m = t.arg(1).as_long()
        if m > 0 and (m & (m - 1)) == 0 and m >= 2 ** W:
            return tobv(t.arg(0), W)
        if m > 0 and (m & (m - 1)) == 0:
            kk = m.bit_length() - 1          # x mod 2^kk keeps the low kk bits (true for negative x too: int2bv is modulo)
            z = tobv(t.arg(0), W)
            return z3.ZeroExt(W - kk, z3.Extract(kk - 1, 0, z))
    if k == z3.Z3_OP_IDIV and z3.is_int_value(t.arg(1)) and _ispow2(t.arg(1).as_long()) and not (z3.is_app(t.arg(0)) and t.arg(0).decl().kind() == z3.Z3_OP_BV2INT):
        # x div 2^k for 0 <= x < 2^W is a logical shift of int2bv(x)
        st = cur()
        inner = t.arg(0)
        if st is not None:
            for w2 in (W, 16, 32, 64):
                if w2 >= W and st.provable(z3.And(inner >= 0, inner < 2 ** w2)):
                    return _resize(z3.LShR(tobv(inner, w2), t.arg(1).as_long().bit_length() - 1), W)
    if k == z3.Z3_OP_IDIV and z3.is_int_value(t.arg(1)) and z3.is_app(t.arg(0)) and t.arg(0).decl().kind() == z3.Z3_OP_BV2INT:
        m = t.arg(1).as_long()
        if m > 0 and (m & (m - 1)) == 0:
            z = t.arg(0).arg(0)              # bv2int(z) is unsigned: floor division by 2^k is a logical shift
            r = z3.LShR(z, m.bit_length() - 1)
            w = z.size()
            return r if w == W else (z3.ZeroExt(W - w, r) if w < W else z3.Extract(W - 1, 0, r))
    return z3.Int2BV(t, W)


class SInt:
    __slots__ = ('t', 'bv', 'part', 'bytes_be')

    def __init__(self, t, bv=None):
        self.t = t
        self.bv = bv        # when set: t == bv2int(bv) (unsigned), operators stay in the BV theory
        self.bytes_be = None   # when set: the byte values (most significant first) this value was composed from by struct.unpack
        self.part = None    # when set to (u, k, m): t == (u div 256^k) mod 256^m  (byte-slice provenance, see struct model)

    def __repr__(self):
        return 'SInt(%s)' % self.t

    def __hash__(self):
        return hash(self.t)

    # arithmetic
    def __add__(self, o): return _arith('+', self, o)
    def __radd__(self, o): return _arith('+', o, self)
    def __sub__(self, o): return _arith('-', self, o)
    def __rsub__(self, o): return _arith('-', o, self)
    def __mul__(self, o): return _arith('*', self, o)
    def __rmul__(self, o): return _arith('*', o, self)
    def __floordiv__(self, o): return _arith('//', self, o)
    def __rfloordiv__(self, o): return _arith('//', o, self)
    def __mod__(self, o): return _arith('%', self, o)
    def __rmod__(self, o): return _arith('%', o, self)
    def __neg__(self): return mk(-self.t)
    def __pos__(self): return self
    def __invert__(self): return mk(-self.t - 1)
    def __and__(self, o): return _bitop('&', self, o)
    def __rand__(self, o): return _bitop('&', o, self)
    def __or__(self, o): return _bitop('|', self, o)
    def __ror__(self, o): return _bitop('|', o, self)
    def __xor__(self, o): return _bitop('^', self, o)
    def __rxor__(self, o): return _bitop('^', o, self)
    def __lshift__(self, o): return _arith('<<', self, o)
    def __rshift__(self, o): return _arith('>>', self, o)
    def __rlshift__(self, o): return _arith('<<', o, self)
    def __rrshift__(self, o): return _arith('>>', o, self)
    # comparisons
    def __eq__(self, o): return _cmp('==', self, o)
    def __ne__(self, o): return _cmp('!=', self, o)
    def __lt__(self, o): return _cmp('<', self, o)
    def __le__(self, o): return _cmp('<=', self, o)
    def __gt__(self, o): return _cmp('>', self, o)
    def __ge__(self, o): return _cmp('>=', self, o)

    def __bool__(self):
        return cur().decide(self.t != 0)

    def __index__(self):
        raise Unsupported('symbolic integer used where a concrete index is required')


class SBool:
    __slots__ = ('t',)

    def __init__(self, t):
        self.t = t

    def __repr__(self):
        return 'SBool(%s)' % self.t

    def __hash__(self):
        return hash(self.t)

    def __bool__(self):
        return cur().decide(self.t)

    def __and__(self, o): return _bitop('&', self, o)
    def __rand__(self, o): return _bitop('&', o, self)
    def __or__(self, o): return _bitop('|', self, o)
    def __ror__(self, o): return _bitop('|', o, self)
    def __xor__(self, o): return _bitop('^', self, o)
    def __rxor__(self, o): return _bitop('^', o, self)
    def __invert__(self): return mk(-zint(self) - 1)
    def __add__(self, o): return _arith('+', self, o)
    def __radd__(self, o): return _arith('+', o, self)
    def __sub__(self, o): return _arith('-', self, o)
    def __rsub__(self, o): return _arith('-', o, self)
    def __mul__(self, o): return _arith('*', self, o)
    def __rmul__(self, o): return _arith('*', o, self)
    def __eq__(self, o): return _cmp('==', self, o)
    def __ne__(self, o): return _cmp('!=', self, o)
    def __lt__(self, o): return _cmp('<', self, o)
    def __le__(self, o): return _cmp('<=', self, o)
    def __gt__(self, o): return _cmp('>', self, o)
    def __ge__(self, o): return _cmp('>=', self, o)


def _isnum(v):
    return isinstance(v, (int, SInt, SBool))


def _arith(op, a, b):
    if not (_isnum(a) and _isnum(b)):
        return NotImplemented
    if isinstance(a, int) and isinstance(b, int):
        import operator as o
        return {'+': o.add, '-': o.sub, '*': o.mul, '//': o.floordiv, '%': o.mod, '<<': o.lshift, '>>': o.rshift}[op](a, b)
    x, y = zint(a), zint(b)
    if op == '+':
        return mk(x + y)
    if op == '-':
        return mk(x - y)
    if op == '*':
        return mk(x * y)
    if op in ('//', '%'):
        if isinstance(b, int) and not isinstance(b, bool) and b > 0:   # A2: positive constant divisor
            if isinstance(a, SInt) and a.bv is not None and _ispow2(b):
                sh, w = b.bit_length() - 1, a.bv.size()
                if op == '//':
                    return mkbv(z3.LShR(a.bv, sh)) if sh < w else 0
                if sh >= w:
                    return a
                return mkbv(z3.ZeroExt(w - sh, z3.Extract(sh - 1, 0, a.bv))) if sh > 0 else 0
            return mk(x / y) if op == '//' else mk(x % y)
        # general: python floor semantics; divisor sign handled, zero divisor raises
        st = cur()
        if st is not None:
            if st.decide(y == 0):
                from .engine import Raised
                raise Raised('ZeroDivisionError')
        # z3 div is Euclidean, i.e. floor for a positive divisor; floor(x/y) == floor((-x)/(-y))
        fl = z3.If(y > 0, x / y, (-x) / (-y))
        if op == '//':
            return mk(fl)
        return mk(x - fl * y)
    if op in ('<<', '>>'):
        if isinstance(b, int):
            if b < 0:
                from .engine import Raised
                raise Raised('ValueError')
            if op == '>>' and isinstance(a, SInt) and a.bv is not None:
                return mkbv(z3.LShR(a.bv, b)) if b < a.bv.size() else 0
            if op == '<<' and isinstance(a, SInt) and a.bv is not None and a.bv.size() + b <= 64:
                return mkbv(z3.ZeroExt(b, a.bv) << b)
            return mk(x * (2 ** b)) if op == '<<' else mk(x / (2 ** b))
        # symbolic shift amount: case split when it is provably within 0..16
        st = cur()
        if st is not None and st.provable(z3.And(y >= 0, y <= 16)):
            r = (x * (2 ** 16)) if op == '<<' else (x / (2 ** 16))
            for sh in range(15, -1, -1):
                r = z3.If(y == sh, (x * (2 ** sh)) if op == '<<' else (x / (2 ** sh)), r)
            return mk(r)
        raise Unsupported('shift by a symbolic amount not provably within 0..16')
    raise Unsupported(op)


def _cmp(op, a, b):
    if a is None or b is None:
        if op == '==':
            return a is b
        if op == '!=':
            return a is not b
        from .engine import Raised
        raise Raised('TypeError')
    if not (_isnum(a) and _isnum(b)):
        # number vs non-number: == is False, ordering is TypeError
        if op == '==':
            return False
        if op == '!=':
            return True
        return NotImplemented
    if isinstance(a, (SBool, bool)) and isinstance(b, (SBool, bool)) and op in ('==', '!='):
        x, y = zbool(a), zbool(b)
        return mk(x == y) if op == '==' else mk(x != y)
    abv = a.bv if isinstance(a, SInt) else None
    bbv = b.bv if isinstance(b, SInt) else None
    if (abv is not None or bbv is not None) and op in ('==', '!=', '<', '<=', '>', '>='):
        W = max(abv.size() if abv is not None else 0, bbv.size() if bbv is not None else 0)
        def side(v, vbv):
            if vbv is not None:
                return _resize(vbv, W)
            if isinstance(v, int) and not isinstance(v, bool) and 0 <= v < 2 ** W:
                return z3.BitVecVal(v, W)
            return None
        p, q = side(a, abv), side(b, bbv)
        if p is not None and q is not None:
            r = {'==': p == q, '!=': p != q, '<': z3.ULT(p, q), '<=': z3.ULE(p, q), '>': z3.UGT(p, q), '>=': z3.UGE(p, q)}[op]
            return SBool(r)
    x, y = zint(a), zint(b)
    return mk({'==': x == y, '!=': x != y, '<': x < y, '<=': x <= y, '>': x > y, '>=': x >= y}[op])


# ----------------------------------------------------------------------------- sequences
class Seq:
    """bytes or list value.  n: python int or z3 Int term.  at(k) -> element for index k
    (k python int or z3 term); elements are python values / SInt / SBool.
    kind 'list' values are mutable (append/extend/slice assignment update in place)."""
    __slots__ = ('kind', 'n', '_at', 'items', 'elem', 'parts', 'src')

    def __init__(self, kind, n, at=None, items=None, elem='int'):
        self.kind = kind
        self.elem = elem
        self.src = None            # for slices with symbolic bounds: (base sequence, lo term, hi term) - adjacent slices re-join
        self.parts = None          # for concatenations: the list of concatenated sequences (additive folds use it)
        if items is not None:
            self.items = list(items)
            self.n = len(self.items)
            self._at = None
        else:
            self.items = None
            self.n = n.t if isinstance(n, SInt) else n
            self._at = at

    # -- constructors
    @staticmethod
    def of_bytes(b):
        return Seq('bytes', None, items=list(b))

    @staticmethod
    def fresh(kind, name, elem='int', n=None, lo=None, hi=None, inp=True):
        """havoc'd sequence backed by an uninterpreted array; element range lo<=e<hi assumed"""
        st = cur()
        arr = z3.Array(st.fresh_name(name + '_a'), z3.IntSort(), z3.IntSort())
        if n is None:
            n = z3.Int(st.fresh_name(name + '_n'))
            st.assume(n >= 0)
        elif isinstance(n, SInt):
            n = n.t
        s = Seq(kind, n, at=lambda k, arr=arr, elem=elem: _elem(arr[zint(k)], elem), elem=elem)
        if elem == 'int' and lo is not None:
            k = z3.Int(st.fresh_name('k'))
            st.assume(z3.ForAll([k], z3.And(arr[k] >= lo, arr[k] < hi)))
            st.range_facts.append((arr, lo, hi))
        if inp:
            st.note_input_seq(name, s, arr)      # unit inputs only: havoc'd program variables are not replay inputs
        return s

    def concrete_len(self):
        return isinstance(self.n, int)

    def length(self):
        return self.n if isinstance(self.n, int) else mk(self.n)

    def at(self, k):
        if self.items is not None:
            if isinstance(k, int):
                return self.items[k]
            # symbolic index into concrete-length items: ite chain
            kk = zint(k)
            if not self.items:
                return False if self.elem == 'bool' else 0       # total: unspecified outside the range
            allbool = all(isinstance(x, (bool, SBool)) for x in self.items)
            if allbool:
                r = zbool(self.items[-1])
                for j in range(len(self.items) - 2, -1, -1):
                    r = z3.If(kk == j, zbool(self.items[j]), r)
                return mk(r)
            r = zint(self.items[-1])
            for j in range(len(self.items) - 2, -1, -1):
                r = z3.If(kk == j, zint(self.items[j]), r)
            return mk(r)
        return self._at(k)

    def zat(self, k):
        """element at index as z3 term (Int; bools as Bool)"""
        v = self.at(k)
        if self.elem == 'bool':
            return zbool(v)
        return zint(v)

    def copy(self):
        if self.items is not None:
            return Seq(self.kind, None, items=self.items, elem=self.elem)
        c = Seq(self.kind, self.n, at=self._at, elem=self.elem)
        c.parts = self.parts
        c.src = self.src
        return c

    def as_kind(self, kind):
        c = self.copy()
        c.kind = kind
        return c

    def is_bytes(self):
        return self.kind in ('bytes', 'bytearray')

    def __repr__(self):
        if self.items is not None:
            return 'Seq<%s>%r' % (self.kind, self.items)
        return 'Seq<%s n=%s>' % (self.kind, self.n)


def _elem(t, elem):
    if elem == 'bool':
        return mk(t != 0)
    return mk(t)


LAMK = z3.Int('lam!k')


def seq_array(s):
    """the content of a sequence as an array term (lambda over the element function): two sequences built the
    same way give the same term, so uninterpreted folds over them (crc16, psum) are congruent"""
    s = to_seq(s)
    body = s.zat(LAMK) if s.items is None else zint(s.at(mk(LAMK))) if s.items else z3.IntVal(0)
    if s.elem == 'bool':
        body = z3.If(body, z3.IntVal(1), z3.IntVal(0)) if z3.is_bool(body) else body
    body = ssimplify(body)
    if z3.is_app(body) and body.decl().kind() == z3.Z3_OP_SELECT and body.arg(1).eq(LAMK) and not _mentions(body.arg(0), LAMK):
        return body.arg(0)               # eta: (lambda k. a[k]) is a
    return z3.Lambda([LAMK], body)


def _mentions(t, v):
    stack, seen = [t], set()
    while stack:
        x = stack.pop()
        if x.get_id() in seen:
            continue
        seen.add(x.get_id())
        if x.eq(v):
            return True
        stack.extend(x.children())
    return False


def to_seq(v):
    """native bytes/list/tuple -> Seq (no copy for Seq)"""
    if isinstance(v, Seq):
        return v
    if isinstance(v, (bytes, bytearray)):
        return Seq.of_bytes(v)
    if isinstance(v, (list, tuple)):
        elem = 'bool' if v and all(isinstance(x, (bool, SBool)) for x in v) else 'int'
        return Seq('list', None, items=list(v), elem=elem)
    raise Unsupported('not a sequence: %r' % (v,))


def seq_concat(a, b):
    a, b = to_seq(a), to_seq(b)
    kind = a.kind
    elem = a.elem if (a.items is None or a.items) else b.elem
    if a.items is not None and b.items is not None:
        return Seq(kind, None, items=a.items + b.items, elem=elem)
    st_ = cur()
    if st_ is not None:
        # slice(x, l, m) ++ slice(x, m, h) is slice(x, l, h): data that arrives in pieces re-joins to the sequence it was cut from
        ap = (a.parts or [a])
        bp = (b.parts or [b])
        la, fb = ap[-1], bp[0]
        if la.src is not None and fb.src is not None and la.src[0] is fb.src[0] and st_.quick(la.src[2] == fb.src[1]):
            joined = seq_slice(la.src[0], mk(la.src[1]), mk(fb.src[2])).as_kind(kind)
            pieces = ap[:-1] + [joined] + bp[1:]
            acc = pieces[0].as_kind(kind)
            for p_ in pieces[1:]:
                acc = _concat_raw(acc, p_.as_kind(kind))
            return acc
    return _concat_raw(a, b)


def _concat_raw(a, b):
    kind = a.kind
    elem = a.elem if (a.items is None or a.items) else b.elem
    if a.items is not None and b.items is not None:
        return Seq(kind, None, items=a.items + b.items, elem=elem)
    an = a.n

    def at(k, a=a, b=b, an=an):
        if isinstance(k, int) and isinstance(an, int):
            return a.at(k) if k < an else b.at(k - an)
        kk = zint(k)
        # resolve the side when the quantifier-free path condition decides it (keeps element provenance and small terms)
        c = ssimplify(kk < an)
        st = cur()
        if z3.is_true(c) or (st is not None and not z3.is_false(c) and st.quick(c)):
            return a.at(mk(kk))
        if z3.is_false(c) or (st is not None and st.quick(z3.Not(c))):
            return b.at(mk(kk - an))
        if elem == 'bool':
            return mk(z3.If(kk < an, a.zat(kk) if a.items is None else zbool(a.at(mk(kk))), zbool(b.at(mk(kk - an)))))
        return mk(z3.If(kk < an, zint(a.at(mk(kk))) if not (isinstance(an, int) and an == 0) else z3.IntVal(0), zint(b.at(mk(kk - an)))))
    if isinstance(an, int) and an == 0:
        r = b.copy()
        r.kind = kind
        return r
    if isinstance(b.n, int) and b.n == 0:
        return a.copy()
    n = an + b.n
    if not isinstance(n, int):
        n = z3.simplify(n)
    r = Seq(kind, n, at=at, elem=elem)
    r.parts = (a.parts or [a]) + (b.parts or [b])
    return r


def cite(c, a, b):
    """If(c, a, b), resolved when the quantifier-free path condition decides c (keeps terms small)"""
    c = ssimplify(c)
    if z3.is_true(c):
        return a
    if z3.is_false(c):
        return b
    st = cur()
    if st is not None:
        if st.quick(c):
            return a
        if st.quick(z3.Not(c)):
            return b
    return z3.If(c, a, b)


def seq_slice(s, lo, hi):
    """s[lo:hi] with python clamping semantics (A4); lo/hi python int, SInt or None"""
    s = to_seq(s)
    n = s.n
    if s.items is not None and (lo is None or isinstance(lo, int)) and (hi is None or isinstance(hi, int)):
        return Seq(s.kind, None, items=s.items[lo:hi], elem=s.elem)

    def norm(x, default):
        if x is None:
            return default
        xz = zint(x)
        nz = zint(n) if not isinstance(n, int) else z3.IntVal(n)
        xz = cite(xz < 0, xz + nz, xz)
        return cite(xz < 0, z3.IntVal(0), cite(xz > nz, nz, xz))
    nz = z3.IntVal(n) if isinstance(n, int) else n
    l = norm(lo, z3.IntVal(0))
    h = norm(hi, nz)
    st = cur()
    if st is not None and s.items is None and st.quick(z3.And(l == 0, h == nz)):
        return s.copy()
    if s.parts and st is not None:
        # a slice that falls exactly on part boundaries of a concatenation is the concatenation of those parts
        # (keeps the term the sequence was built from, so uninterpreted folds over it stay congruent)
        bounds = [z3.IntVal(0)]
        for p_ in s.parts:
            pn = p_.n if not isinstance(p_.n, int) else z3.IntVal(p_.n)
            bounds.append(z3.simplify(bounds[-1] + pn))
        # ... and a slice that lies inside one part is a slice of that part
        for i, p_ in enumerate(s.parts):
            if st.quick(z3.And(bounds[i] <= l, h <= bounds[i + 1], l <= h)):
                inner = seq_slice(p_, mk(z3.simplify(l - bounds[i])), mk(z3.simplify(h - bounds[i])))
                return inner.as_kind(s.kind)
        li = [i for i, b_ in enumerate(bounds) if st.quick(l == b_)]
        hi_ = [i for i, b_ in enumerate(bounds) if st.quick(h == b_)]
        if li and hi_ and li[0] <= hi_[-1]:
            sel = s.parts[li[0]:hi_[-1]]
            if not sel:
                return Seq(s.kind, None, items=[], elem=s.elem)
            acc = sel[0].as_kind(s.kind)
            for p_ in sel[1:]:
                acc = seq_concat(acc, p_.as_kind(s.kind))
            return acc
    ln = z3.simplify(cite(h > l, h - l, z3.IntVal(0)))
    l = z3.simplify(l)
    if z3.is_int_value(ln) and z3.is_int_value(l):
        lv, nv = l.as_long(), ln.as_long()
        return Seq(s.kind, None, items=[s.at(lv + j) for j in range(nv)], elem=s.elem)
    if z3.is_int_value(ln):
        nv = ln.as_long()
        return Seq(s.kind, None, items=[s.at(mk(l + j)) for j in range(nv)], elem=s.elem)
    r_ = Seq(s.kind, ln, at=lambda k, s=s, l=l: s.at(mk(l + zint(k))), elem=s.elem)
    r_.src = (s, l, z3.simplify(h))
    return r_


def seq_eq(a, b):
    """extensional equality as SBool/bool"""
    a, b = to_seq(a), to_seq(b)
    if a.items is not None and b.items is not None:
        if len(a.items) != len(b.items):
            return False
        cs = []
        for x, y in zip(a.items, b.items):
            c = _cmp('==', x, y) if (_isnum(x) and _isnum(y)) else (x is y or x == y)
            if c is False:
                return False
            if c is not True:
                cs.append(zbool(c))
        return mk(z3.And(*cs)) if cs else True
    st = cur()
    k = z3.Int(st.fresh_name('q'))
    an = zint(a.n) if not isinstance(a.n, int) else z3.IntVal(a.n)
    bn = zint(b.n) if not isinstance(b.n, int) else z3.IntVal(b.n)
    if a.items is not None or b.items is not None:
        # one side concrete length: conjunction, no quantifier
        c, o = (a, b) if a.items is not None else (b, a)
        cs = [an == bn]
        for j in range(len(c.items)):
            cs.append(zint(c.items[j]) == zint(o.at(j)) if c.elem != 'bool' else zbool(c.items[j]) == zbool(o.at(j)))
        return mk(z3.And(*cs))
    body = (a.zat(k) == b.zat(k))
    return mk(z3.And(an == bn, z3.ForAll([k], z3.Implies(z3.And(k >= 0, k < an), body))))


# ----------------------------------------------------------------------------- maps with symbolic integer keys
_K = z3.Int('k!map')


class SMap:
    """dict with integer keys: has(k)->Bool term, get(k)->value.  Mutable (set/delete in place)."""
    __slots__ = ('_has', '_get', 'elem')

    def __init__(self, has, get, elem='int'):
        self._has, self._get, self.elem = has, get, elem

    @staticmethod
    def fresh(name, elem='int', inp=True, lo=None, hi=None):
        """lo, hi (both given, lo = 0): every value lies in 0..hi-1.  Encoded without a quantifier: the value at k is raw[k] mod hi, which
        ranges over exactly the maps with values in range as raw ranges over all arrays"""
        st = cur()
        dom = z3.Array(st.fresh_name(name + '_dom'), z3.IntSort(), z3.BoolSort())
        val = z3.Array(st.fresh_name(name + '_val'), z3.IntSort(), z3.IntSort())
        if lo is not None or hi is not None:
            assert lo == 0 and hi is not None and elem == 'int'
            m = SMap(lambda k: dom[zint(k)], lambda k: mk(val[zint(k)] % hi), elem)
        else:
            m = SMap(lambda k: dom[zint(k)], lambda k: _elem(val[zint(k)], elem), elem)
        if inp:
            st.note_input_map(name, m, dom, val if hi is None else z3.Lambda([_K], val[_K] % hi))
        return m

    def set_range(self, address, values):
        """in place: cells address .. address+len(values)-1 := values (the effect of a block write)"""
        oh, og, a, vs = self._has, self._get, zint(address), to_seq(values)
        n = zint(vs.length())
        inside = lambda k: z3.And(zint(k) >= a, zint(k) < a + n)
        self._has = lambda k: z3.If(inside(k), z3.BoolVal(True), zbool(oh(k)))
        if self.elem == 'bool':
            self._get = lambda k: mk(z3.If(inside(k), zbool(vs.at(mk(zint(k) - a))), zbool(og(k))))
        else:
            self._get = lambda k: mk(z3.If(inside(k), zint(vs.at(mk(zint(k) - a))), zint(og(k))))

    def has(self, k):
        return mk(self._has(k))

    def get(self, k):
        return self._get(k)

    def zget(self, k):
        v = self._get(k)
        return zbool(v) if self.elem == 'bool' else zint(v)

    def set(self, key, value):
        oh, og, kz = self._has, self._get, zint(key)
        self._has = lambda k: z3.If(zint(k) == kz, z3.BoolVal(True), zbool(oh(k)))
        if self.elem == 'bool':
            self._get = lambda k: mk(z3.If(zint(k) == kz, zbool(value), zbool(og(k))))
        else:
            self._get = lambda k: mk(z3.If(zint(k) == kz, zint(value), zint(og(k))))

    def delete(self, key):
        oh, kz = self._has, zint(key)
        self._has = lambda k: z3.If(zint(k) == kz, z3.BoolVal(False), zbool(oh(k)))

    def snapshot(self):
        return SMap(self._has, self._get, self.elem)


# ----------------------------------------------------------------------------- heap objects
class Obj:
    """instance of a repo class (static class tag + field dict) - A5"""
    _n = [0]

    def __init__(self, cls, fields=None):
        object.__setattr__(self, 'cls', cls)
        object.__setattr__(self, 'fields', dict(fields or {}))
        Obj._n[0] += 1
        object.__setattr__(self, 'oid', Obj._n[0])

    def __getattr__(self, name):           # convenience for sidecar specs: obj.field
        f = object.__getattribute__(self, 'fields')
        if name in f:
            return f[name]
        cls = object.__getattribute__(self, 'cls')
        found, v = cls.lookup(name)
        if found:
            return v
        raise AttributeError(name)

    def __setattr__(self, name, value):
        self.fields[name] = value

    def __repr__(self):
        return 'Obj<%s#%d>' % (self.cls.name, self.oid)


class Opaque:
    """a value the engine knows nothing about (external object, string built at run time...)"""
    def __init__(self, what, **info):
        self.what = what
        self.info = info

    def __repr__(self):
        return 'Opaque<%s>' % self.what
