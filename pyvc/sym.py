"""Symbolic-mode E: the API units (contracts and lemmas) use to talk to the engine.
The concrete-mode twin with the same API is pyvc/conc.py (runs the real code natively)."""
import z3
from . import values as V
from .values import SInt, SBool, Seq, SMap, Obj, Opaque, mk, zint, zbool, Unsupported, to_seq
from .engine import Raised, PathAbort
from .interp import Interp, Config, PyCallable, BoundMethod, class_ns, module_ns
from .resolver import Repo, ClassInfo, FuncInfo
from . import lang as L


class Outcome:
    cut = False      # True: the call ended at the end of one arbitrary iteration of a cut loop

    def __init__(self, value=None, exc=None):
        self.value, self.exc = value, exc

    @property
    def ok(self):
        return self.exc is None

    def raised(self, *names):
        return self.exc is not None and self.exc.isinstance(*names)

    def __repr__(self):
        return 'Outcome(%r)' % (self.exc.cls if self.exc else self.value,)


class SymE:
    mode = 'symbolic'
    Raised = Raised

    def __init__(self, st, cfg):
        self.st, self.cfg = st, cfg
        self.I = Interp(st, cfg)
        self.L = L

    # ---------------------------------------------------------------- inputs
    def int(self, name, lo=None, hi=None):
        t = z3.Int(self.st.fresh_name(name))
        self.st.note_input(name, t)
        if lo is not None:
            self.st.assume(t >= lo)
        if hi is not None:
            self.st.assume(t < hi)
        return SInt(t)

    def bool(self, name):
        t = z3.Bool(self.st.fresh_name(name))
        self.st.note_input(name, t)
        return SBool(t)

    def bytes(self, name, minlen=0, maxlen=None):
        s = Seq.fresh('bytes', name, elem='int', lo=0, hi=256)
        self.st.assume(s.n >= minlen)
        if maxlen is not None:
            self.st.assume(s.n <= maxlen)
        return s

    def bytes_n(self, name, n):
        items = []
        for j in range(n):
            items.append(self.int('%s[%d]' % (name, j), 0, 256))
        return Seq('bytes', None, items=items)

    def ints(self, name, lo=None, hi=None, minlen=0, maxlen=None):
        s = Seq.fresh('list', name, elem='int', lo=lo, hi=hi)
        self.st.assume(s.n >= minlen)
        if maxlen is not None:
            self.st.assume(s.n <= maxlen)
        return s

    def ints_n(self, name, n, lo=None, hi=None):
        return [self.int('%s[%d]' % (name, j), lo, hi) for j in range(n)]

    def bools(self, name, minlen=0, maxlen=None):
        s = Seq.fresh('list', name, elem='bool')
        self.st.assume(s.n >= minlen)
        if maxlen is not None:
            self.st.assume(s.n <= maxlen)
        return s

    def intmap(self, name, elem='int', lo=None, hi=None):
        return SMap.fresh(name, elem, lo=lo, hi=hi)

    def choice(self, name, options):
        """case split over a finite list of python values (every alternative is a path)"""
        options = list(options)
        k = self.st.branch(len(options), name)
        self.st.inputs.append((name, 'const', k))
        self.st.trace.append('%s=%r' % (name, options[k] if not isinstance(options[k], (ClassInfo,)) else options[k].name))
        return options[k]

    # ---------------------------------------------------------------- objects and calls
    def cls(self, qual):
        c = Repo.get().cls(qual)
        if c is None:
            raise Unsupported('class %s not found in /repo' % qual)
        return c

    def obj(self, qual, **fields):
        c = qual if isinstance(qual, ClassInfo) else self.cls(qual)
        return Obj(c, fields)

    def new(self, qual, *args, **kw):
        c = qual if isinstance(qual, ClassInfo) else self.cls(qual)
        return self.I.call_value(c, list(args), kw)

    def func(self, qual):
        f = Repo.get().func(qual)
        if f is None:
            raise Unsupported('function %s not found in /repo' % qual)
        return f

    def classcall(self, cls_qual, name, *args, **kw):
        """cls.name(*args) for a classmethod / staticmethod, resolved through the class's MRO"""
        c = self.cls(cls_qual)
        return self.I.call_value(self.I.getattr(c, name), list(args), kw)

    def func_exists(self, qual):
        return Repo.get().func(qual) is not None

    def call(self, qual, *args, **kw):
        """call the real /repo function `qual` (callees replaced by the unit's contracts)"""
        f = self.func(qual)
        return self.I.call_function(f, list(args), kw)

    def method(self, obj, name, *args, **kw):
        """obj.name(*args): dynamic dispatch on the object's class, through the configured contracts"""
        f = self.I.getattr(obj, name)
        return self.I.call_value(f, list(args), kw)

    def method_body(self, obj, name, *args, **kw):
        """like method() but always executes the real body of the resolved method (never its contract)"""
        f = self.I.getattr(obj, name)
        if isinstance(f, BoundMethod):
            return self.I.call_function(f.func, [f.obj] + list(args), kw)
        return self.I.call_value(f, list(args), kw)

    def attempt(self, thunk, allow_cut=False):
        from .engine import LoopCutEnd
        try:
            return Outcome(value=thunk())
        except Raised as r:
            return Outcome(exc=r)
        except LoopCutEnd:
            if not allow_cut:
                raise
            o = Outcome()
            o.cut = True
            return o

    def raise_(self, clsname):
        raise Raised(clsname)

    def get(self, obj, name):
        return self.I.getattr(obj, name)

    def set(self, obj, name, value):
        self.I.setattr(obj, name, value)

    def has(self, obj, name):
        return self.I.hasattr(obj, name)

    def classname(self, obj):
        if isinstance(obj, Obj):
            return obj.cls.name
        if type(obj).__name__ == 'ExcVal':         # an exception caught with `except ... as e` that carries no instance
            return obj.cls.split('.')[-1]
        return type(obj).__name__

    def isinstance(self, obj, clsname):
        if isinstance(obj, Obj):
            return clsname in obj.cls.mro_names()
        return False

    def class_attr(self, qual, name):
        found, v = self.cls(qual).lookup(name)
        if not found:
            raise Unsupported('%s has no attribute %s' % (qual, name))
        return v

    def module_attr(self, mod, name):
        return module_ns(Repo.get().module(mod))[name]

    def callback(self, fn, name='callback'):
        """wrap a python function of the unit so the interpreted program can call it"""
        return PyCallable(lambda I, args, kw: fn(*args, **kw), name)

    def opaque(self, what, **info):
        return Opaque(what, **info)

    def check_args(self, qual, args, kw):
        """bind (args, kw) against the real signature of /repo function `qual` (self excluded); raises TypeError as the
        program would when a call site does not match the signature"""
        f = self.func(qual)
        from .interp import Frame
        self.I.bind_args(f.node.args, [None] + list(args), dict(kw), Frame(f.module, f.cls, None, {}), f.name)

    def stub(self, what, methods=None, attrs=None, awaitable=()):
        """an external object (socket, transport, deferred...) whose methods are python functions of the unit:
        methods {name: fn(*args, **kw)}; fn may raise E.Raised(...)"""
        ms = {}
        for k, fn in (methods or {}).items():
            ms[k] = (lambda I, recv, args, kw, fn=fn: fn(*args, **kw))
        return Opaque(what, methods=ms, attrs_set=dict(attrs or {}), attrs=set((attrs or {}).keys()) | set(ms.keys()))

    def fold(self, name, data, init, step, lo=None, hi=None, additive=False):
        """fold of `step` over the byte sequence `data` starting from `init`, as an uninterpreted state function
        name(array, j): state(a,0)=init, state(a,j)=step(state(a,j-1), a[j-1]).  Only the base case and the range
        [lo,hi) of the states are asserted here; unfoldings are instantiated where needed with fold_state(...,
        unfold=True) (quantifier-free instances of the defining equation).  Mirrors the executable definition
        used in concrete mode."""
        st = self.st
        if additive:
            sq = to_seq(data)
            if sq.items is not None:
                acc = init
                for x in sq.items:
                    acc = step(acc, x)
                return acc
            if sq.parts:
                acc = init
                for p_ in sq.parts:
                    acc = acc + self.fold(name, p_, 0, step, lo, hi, additive=True)
                return acc
        f = z3.Function(name, z3.ArraySort(z3.IntSort(), z3.IntSort()), z3.IntSort(), z3.IntSort())
        arr = V.seq_array(data)
        n = L.length(data)
        key = (name, arr.sexpr())
        done = st.ghost.setdefault('folds', {})
        if key not in done:
            done[key] = (f, arr, init, step, lo, hi)
            st.assume(f(arr, 0) == zint(init))
            if lo is not None:
                j = z3.Int(st.fresh_name('k'))
                st.assume(z3.ForAll([j], z3.And(f(arr, j) >= lo, f(arr, j) < hi) if hi is not None else f(arr, j) >= lo), heavy=True)
        st.ghost.setdefault('fold_defs', {})[name] = (init, step, lo, hi)
        if lo is not None:
            st.assume(z3.And(f(arr, zint(n)) >= lo, f(arr, zint(n)) < hi) if hi is not None else f(arr, zint(n)) >= lo)      # instance of the range axiom at n
        return mk(f(arr, zint(n)))

    def fold_state(self, name, data, j, unfold=False):
        """name(array of data, j) for an intermediate index (loop invariants).  unfold=True also asserts the
        instance of the defining equation at j:  j > 0 and 0 <= a[j-1] < 256  =>  state(a,j) = step(state(a,j-1), a[j-1])"""
        st = self.st
        f = z3.Function(name, z3.ArraySort(z3.IntSort(), z3.IntSort()), z3.IntSort(), z3.IntSort())
        arr = V.seq_array(data)
        jz = zint(j)
        if unfold:
            init, step, lo, hi = st.ghost['fold_defs'][name]
            prev, el = f(arr, jz - 1), arr[jz - 1]
            if not isinstance(arr, z3.ArrayRef) or z3.is_quantifier(arr):
                el = z3.simplify(arr[jz - 1]) if not V.contains_bv(arr[jz - 1]) else arr[jz - 1]
            elem_ok = z3.And(el >= 0, el < 256)
            st.solver.push()
            st.solver.add(elem_ok, jz > 0)
            if lo is not None:
                st.solver.add(prev >= lo)
                if hi is not None:
                    st.solver.add(prev < hi)
            try:
                body = step(mk(prev), mk(el))
            finally:
                st.solver.pop()
            inst = z3.Implies(z3.And(jz > 0, elem_ok), f(arr, jz) == zint(body))
            if lo is not None:
                inst = z3.And(inst, f(arr, jz) >= lo, prev >= lo) if hi is None else z3.And(inst, f(arr, jz) >= lo, f(arr, jz) < hi, prev >= lo, prev < hi)
            st.assume(inst, heavy=True)
        return mk(f(arr, jz))

    def float(self, name, ch):
        """an arbitrary value representable in struct format ch ('e','f','d'), identified by a fresh integer"""
        from .libmodels import FloatV, float_fn, STRUCT_SIZES
        ident = z3.Int(self.st.fresh_name(name))
        self.st.note_input(name, ident)
        n = STRUCT_SIZES[ch]
        bits = float_fn(ch, 'bits')(ident)
        # struct axiom for representable values: unpack(pack(v)) == v; bit patterns are n-byte values
        self.st.assume(z3.And(bits >= 0, bits < 256 ** n, float_fn(ch, 'val')(bits) == ident))
        return FloatV(mk(ident))

    def float_be_bytes(self, v, ch):
        from .libmodels import float_fn, STRUCT_SIZES
        n = STRUCT_SIZES[ch]
        bits = float_fn(ch, 'bits')(zint(v.ident))
        return [mk((bits / (256 ** (n - 1 - k))) % 256) for k in range(n)]

    def float_eq(self, a, b, ch):
        from .libmodels import FloatV
        if isinstance(a, FloatV) and isinstance(b, FloatV):
            return mk(zint(a.ident) == zint(b.ident))
        return False

    def tolist(self, seq):
        """a python-level list value of the program holding the elements of seq"""
        s = to_seq(seq)
        return list(s.items) if s.items is not None else s.as_kind('list')

    def as_bytes(self, seq):
        """a sequence of byte values as a bytes object of the program"""
        return to_seq(seq).as_kind('bytes')

    def clone(self, v, memo=None):
        """deep copy of a symbolic value / object graph (for running spec and body on equal states)"""
        if memo is None:
            memo = {}
        if id(v) in memo:
            return memo[id(v)]
        if isinstance(v, Obj):
            o = Obj(v.cls)
            memo[id(v)] = o
            for k, x in v.fields.items():
                o.fields[k] = self.clone(x, memo)
            return o
        if isinstance(v, Seq):
            c = v.copy()
            if c.items is not None:
                c.items = [self.clone(x, memo) for x in c.items]
            memo[id(v)] = c
            return c
        if isinstance(v, SMap):
            c = v.snapshot()
            memo[id(v)] = c
            return c
        if isinstance(v, list):
            c = []
            memo[id(v)] = c
            c.extend(self.clone(x, memo) for x in v)
            return c
        if isinstance(v, dict):
            c = {}
            memo[id(v)] = c
            for k, x in v.items():
                c[k] = self.clone(x, memo)
            return c
        if isinstance(v, tuple):
            return tuple(self.clone(x, memo) for x in v)
        if isinstance(v, set):
            return set(v)
        return v

    # ---------------------------------------------------------------- logic
    def assume(self, cond):
        if cond is True:
            return
        if cond is False:
            raise PathAbort()
        self.st.assume(cond)

    def prove(self, label, cond, finding=None, region=None, **meta):
        """obligation `path condition => cond`.  With finding=<id>, region=<cond>: while <id> is an active
        entry of known-findings.txt the obligation is restricted to the complement of the region
        (so any *other* failure of the clause is still reported); otherwise the full clause is required."""
        from . import findings as F
        if finding is not None:
            meta['finding'] = finding
            if finding in F.ACTIVE and region is not None:
                cond = L.Or(region, cond)
                meta['restricted_to_complement_of_known_finding'] = True
        self.st.prove(label, cond, **meta)

    def prove_forall(self, label, lo, hi, body, use=None, **meta):
        """obligation  for all k in [lo,hi): body(k), proved pointwise at a fresh index k (manual skolemisation);
        use(k) may return lemma instances (conditions established by their own units) assumed for this obligation only"""
        k = SInt(z3.Int(self.st.fresh_name('sk')))
        extra = [zbool(L.And(lo <= k, k < hi))]
        if use is not None:
            for c in use(k):
                if c is not True:
                    extra.append(zbool(c))
        from . import findings as F
        cond = body(k)
        finding, region = meta.pop('finding', None), meta.pop('region', None)
        if finding is not None:
            meta['finding'] = finding
            if finding in F.ACTIVE and region is not None:
                cond = L.Or(region, cond)
        self.st.prove(label, cond, extra_pc=extra, **meta)

    def use_lemma(self, name, cond):
        """cond is an instance of the lemma `name`, which is established by its own unit lemma/<name> in the same check"""
        if name not in self.st.lemmas_used:
            self.st.lemmas_used.append(name)
        return cond

    def cover(self, label):
        self.st.cover(label)

    def note(self, text):
        self.st.trace.append(text)

    def fresh_int(self, name):
        """auxiliary (non-input) symbolic integer"""
        return SInt(z3.Int(self.st.fresh_name(name)))

    def same_state(self, a, b, path='', skip=()):
        """structural equality of two values / object graphs as a condition (fields compared by value)"""
        if isinstance(a, Obj) and isinstance(b, Obj):
            if a.cls is not b.cls:
                return False
            ks = set(a.fields) | set(b.fields)
            cs = []
            for k in sorted(ks):
                if k in skip:
                    continue
                if k not in a.fields or k not in b.fields:
                    return False
                cs.append(self.same_state(a.fields[k], b.fields[k], path + '.' + k, skip))
            return L.And(*cs) if cs else True
        if isinstance(a, dict) and isinstance(b, dict):
            if set(map(repr, a.keys())) != set(map(repr, b.keys())):
                return False
            return L.And(*[self.same_state(a[k], b[k], path, skip) for k in a]) if a else True
        if isinstance(a, SMap) and isinstance(b, SMap):
            k = z3.Int(self.st.fresh_name('q'))
            return mk(z3.ForAll([k], z3.And(zbool(a.has(mk(k))) == zbool(b.has(mk(k))),
                                            z3.Implies(zbool(a.has(mk(k))), a.zget(mk(k)) == b.zget(mk(k))))))
        if isinstance(a, tuple) and isinstance(b, tuple):
            if len(a) != len(b):
                return False
            return L.And(*[self.same_state(x, y, path, skip) for x, y in zip(a, b)]) if a else True
        if isinstance(a, list) and isinstance(b, list) and any(not V._isnum(x) for x in a + b):
            if len(a) != len(b):
                return False
            return L.And(*[self.same_state(x, y, path, skip) for x, y in zip(a, b)]) if a else True
        if isinstance(a, (Seq, list, bytes)) and isinstance(b, (Seq, list, bytes)):
            return L.eq(a, b)
        if isinstance(a, Opaque) or isinstance(b, Opaque):
            return a is b
        return self.I.equal(a, b)
