"""pyvc engine: path exploration by re-execution, obligations, discharge, counter-models.

A *unit* is a python callable unit(E) (a function contract check or a property-level
lemma from /verif/units).  It is run once per feasible path; symbolic branching
(`if` on a symbolic condition, in the interpreted /repo source or in the unit's own
python code) calls State.decide, which replays the recorded choice prefix and
schedules the sibling.  E.prove(label, claim) records an obligation
(path condition => claim) which is discharged by z3, then cvc5 for z3's unknowns.
"""
import time, os, subprocess, tempfile, hashlib
import z3
from . import values as V
from .values import SInt, SBool, Seq, SMap, Obj, mk, zint, zbool, Unsupported

Z3_DECIDE_MS = int(os.environ.get('PYVC_DECIDE_MS', '3000'))
BASELINE = set()       # names of obligations discharged on the unchanged tree (set by the driver from baseline-obligations.txt)


FORKS = None       # debugging aid: {condition text: number of two-way forks} when set to a dict


class Raised(Exception):
    """a python exception in flight in the interpreted program (A8)"""
    def __init__(self, cls, payload=None, where=None):
        Exception.__init__(self, cls)
        self.cls = cls            # class name, e.g. 'IndexError', 'ModbusIOException'
        self.payload = payload    # Obj for repo exception instances, else None
        self.where = where

    def mro(self):
        from .resolver import exception_mro
        return exception_mro(self.cls, self.payload)

    def isinstance(self, *names):
        m = self.mro()
        return any(n in m for n in names)


class PathAbort(Exception):
    """the current path is infeasible / cut (assume False)"""


class LoopCutEnd(PathAbort):
    """end of the arbitrary iteration of a loop cut at its invariant (the invariant has been re-established or
    recorded as an obligation); a unit may catch it with E.attempt(..., allow_cut=True) to state clauses about
    the state at the end of one iteration"""


class Obligation:
    __slots__ = ('label', 'pc', 'claim', 'meta', 'status', 'model', 'solver', 'secs', 'path', 'detail', 'ghost')

    def __init__(self, label, pc, claim, meta, path):
        self.label, self.pc, self.claim, self.meta, self.path = label, pc, claim, meta, path
        self.status = None      # 'discharged' | 'refuted' | 'unknown'
        self.model = None
        self.solver = None
        self.secs = 0.0
        self.detail = ''
        self.ghost = None       # refuted: names of non-input (havoc-ed / ghost) constants the formula mentions


class State:
    shard = None                         # (k, N): explore only alternatives a with a % N == k at wide branches

    def __init__(self, choices):
        self.choices = list(choices)     # list of (bool value, forced)
        self.sharded = False
        self.pos = 0
        self.pc = []                     # z3 Bool terms (assumptions + branch conditions)
        self.obligs = []
        self.counter = {}
        self.solver = z3.Solver()
        self.solver.set('timeout', Z3_DECIDE_MS)
        self.inputs = []                 # (name, kind, payload) for model extraction
        self.trace = []                  # human-readable path notes
        self.decisions = 0
        self.covers = set()
        self.qf = []                     # quantifier-free part of pc (for cheap range proofs)
        self.range_facts = []            # (array term, lo, hi): every element of the array is within [lo, hi)
        self.assumed_calls = []          # contracts applied (for the report)
        self.unknown_calls = []
        self.lemmas_used = []
        self.ghost = {}

    # ---- naming
    def fresh_name(self, base):
        n = self.counter.get(base, 0)
        self.counter[base] = n + 1
        return '%s!%d' % (base, n) if n or base in ('k', 'q') else base

    def fresh_int(self, base):
        return z3.Int(self.fresh_name(base))

    # ---- assumptions
    def assume(self, cond, heavy=False):
        """heavy=True: definitional axioms (uninterpreted folds...) that are needed to discharge obligations but
        are kept out of the incremental feasibility solver (feasibility then over-approximates: sound)"""
        c = zbool(cond) if not isinstance(cond, z3.BoolRef) else cond
        if heavy:
            self.pc.append(c)
            return
        c = V.ssimplify(c)
        if z3.is_true(c):
            return
        if z3.is_false(c):
            raise PathAbort()
        self.pc.append(c)
        self.solver.add(c)
        if not _has_quant(c):
            self.qf.append(c)

    def side_assume_range(self, x, lo, hi):
        """operands of a generic bitwise op must be in range for the BV encoding to be exact:
        recorded as an obligation-like check: if not provable the op is out of reach."""
        c = z3.And(x >= lo, x < hi)
        if z3.is_true(V.ssimplify(c)):
            return
        self.solver.push()
        self.solver.add(z3.Not(c))
        r = self.solver.check()
        self.solver.pop()
        if r != z3.unsat:
            raise Unsupported('bitwise operator on an operand not provably within %d bits' % V.BVW)

    def side_assume_one_nonneg(self, x, y, hi):
        for v in (x, y):
            c = z3.And(v >= 0, v < hi)
            self.solver.push()
            self.solver.add(z3.Not(c))
            r = self.solver.check()
            self.solver.pop()
            if r == z3.unsat:
                return
        raise Unsupported('& with two possibly negative operands')

    def quick(self, c):
        """cheap sufficient test: c follows from the quantifier-free part of the path condition (1 s budget)"""
        c = V.ssimplify(c)
        if z3.is_true(c):
            return True
        if z3.is_false(c):
            return False
        key = c.get_id()
        memo = self.__dict__.setdefault('_quick_memo', {})
        hit = memo.get(key)
        if hit is not None and hit[1] == len(self.qf):
            return hit[2]
        s2 = z3.Solver()
        s2.set('rlimit', 2000000)        # deterministic resource bound (no wall-clock timeout: load must not change terms)
        for a in self.qf:
            s2.add(a)
        s2.add(z3.Not(c))
        r = s2.check() == z3.unsat
        memo[key] = (c, len(self.qf), r)
        return r

    def provable(self, c):
        c = V.ssimplify(c)
        if z3.is_true(c):
            return True
        # cheap attempt: quantifier-free assumptions + range facts instantiated at the array reads occurring in c
        s2 = z3.Solver()
        s2.set('rlimit', 4000000)
        for a in self.qf:
            s2.add(a)
        if self.range_facts:
            for sel in _selects(c):
                for (arr, lo, hi) in self.range_facts:
                    if sel.arg(0).eq(arr):
                        s2.add(sel >= lo, sel < hi)
        s2.add(z3.Not(c))
        if s2.check() == z3.unsat:
            return True
        self.solver.push()
        self.solver.add(z3.Not(c))
        r = self.solver.check()
        self.solver.pop()
        return r == z3.unsat

    def check_feasible(self):
        r = self.solver.check()
        if r == z3.unsat:
            raise PathAbort()

    # ---- branching
    def decide(self, cond):
        if isinstance(cond, bool):
            return cond
        if isinstance(cond, (SBool, SInt)):
            cond = zbool(cond)
        cond = V.ssimplify(cond)
        if z3.is_true(cond):
            return True
        if z3.is_false(cond):
            return False
        from . import lang as _L
        if _L._INQ[0] > 0:
            raise Unsupported('symbolic branch inside a quantifier body (use L.ite in spec functions)')
        self.decisions += 1
        if self.decisions > 4000:
            raise Unsupported('path too long (more than 4000 symbolic decisions)')
        if self.pos < len(self.choices):
            c = self.choices[self.pos][0]
        else:
            ft = self._feasible(cond)
            ff = self._feasible(z3.Not(cond))
            if ft and ff:
                c = True
                self.choices.append((True, False))
                if FORKS is not None:
                    FORKS[str(cond)[:100]] = FORKS.get(str(cond)[:100], 0) + 1
            elif ft:
                c = True
                self.choices.append((True, True))
            elif ff:
                c = False
                self.choices.append((False, True))
            else:
                raise PathAbort()
        self.pos += 1
        t = cond if c else z3.Not(cond)
        self.pc.append(t)
        self.solver.add(t)
        if not _has_quant(t):
            self.qf.append(t)
        return c

    def branch(self, n, label=''):
        """non-deterministic n-way choice (loop cuts, callee outcomes); every alternative is explored"""
        if self.pos < len(self.choices):
            c = self.choices[self.pos][0]
            if self.choices[self.pos][1] in ('branch', 'branch-alt') and len(self.choices[self.pos]) > 3:
                self.sharded = True
        else:
            alts = list(range(n))
            if self.shard is not None and n >= 16 and not self.sharded:
                k, N = self.shard
                alts = [a for a in alts if a % N == k]
                self.sharded = True
                if not alts:
                    raise PathAbort()
                self.choices.append((alts[0], 'branch', n, alts))
            else:
                self.choices.append((0, 'branch', n))
            c = alts[0]
        self.pos += 1
        return c

    def _feasible(self, c):
        self.solver.push()
        self.solver.add(c)
        r = self.solver.check()
        self.solver.pop()
        return r != z3.unsat          # unknown counts as feasible

    # ---- obligations
    def prove(self, label, claim, extra_pc=(), **meta):
        if isinstance(claim, bool):
            c = z3.BoolVal(claim)
        else:
            c = zbool(claim)
        pc = list(self.pc) + [zbool(x) if not isinstance(x, z3.BoolRef) else x for x in extra_pc if x is not True]
        self.obligs.append(Obligation(label, pc, c, meta, len(self.trace)))

    def cover(self, label):
        self.covers.add(label)

    # ---- inputs (for counter-model extraction)
    def note_input(self, name, term):
        self.inputs.append((name, 'int', term))

    def note_input_seq(self, name, seq, arr):
        self.inputs.append((name, 'seq', (seq.n, arr, seq.elem, seq.kind)))

    def note_input_map(self, name, m, dom, val):
        self.inputs.append((name, 'map', (dom, val, m.elem)))


def _has_quant(t):
    seen = set()
    stack = [t]
    while stack:
        x = stack.pop()
        if x.get_id() in seen:
            continue
        seen.add(x.get_id())
        if z3.is_quantifier(x):
            return True
        stack.extend(x.children())
    return False


def _has_lambda(t):
    seen, stack = set(), [t]
    while stack:
        x = stack.pop()
        if x.get_id() in seen:
            continue
        seen.add(x.get_id())
        if z3.is_quantifier(x):
            if x.is_lambda():
                return True
            stack.append(x.body())
            continue
        stack.extend(x.children())
    return False


def _selects(t):
    out, seen, stack = [], set(), [t]
    while stack:
        x = stack.pop()
        if x.get_id() in seen:
            continue
        seen.add(x.get_id())
        if z3.is_quantifier(x):
            continue
        if z3.is_app(x) and x.decl().kind() == z3.Z3_OP_SELECT:
            out.append(x)
        stack.extend(x.children())
    return out


class UnitResult:
    def __init__(self, name):
        self.name = name
        self.paths = 0
        self.obligs = []         # Obligation objects (with status)
        self.aborted = 0
        self.out_of_reach = None # reason string when the unit left the subset
        self.error = None        # checker malfunction (traceback)
        self.covers = set()
        self.secs = 0.0
        self.solver_secs = 0.0
        self.assumed = []
        self.unknown_calls = []
        self.lemmas_used = []
        self.inputs_decl = None


def explore(unit, make_E, max_paths=20000, shard=None):
    """run unit(E) over all feasible paths; returns (paths, [State...]) info"""
    res = UnitResult(getattr(unit, 'name', getattr(unit, '__name__', 'unit')))
    stack = [[]]
    t0 = time.time()
    states = []
    seen_obl = set()
    while stack:
        choices = stack.pop()
        st = State(choices)
        st.shard = shard
        V._CUR[0] = st
        V.Obj._n[0] = 0
        from . import interp as _interp
        _interp.reset_program_state()
        E = make_E(st)
        try:
            unit(E)
            finished = True
        except PathAbort:
            finished = False
            res.aborted += 1
        except Unsupported as u:
            res.out_of_reach = 'out of reach: %s' % u
            V._CUR[0] = None
            res.secs = time.time() - t0
            return res
        except Raised as r:
            # an exception escaping the unit itself is a unit-writing error unless the unit handles it
            st.prove('unit:no-unhandled-exception[%s]' % r.cls, False)
            finished = True
        finally:
            pass
        for k in range(len(choices), len(st.choices)):
            ent = st.choices[k]
            if ent[1] == 'branch':
                alts = ent[3][1:] if len(ent) > 3 else range(1, ent[2])
                for alt in alts:
                    stack.append(st.choices[:k] + [(alt, 'branch-alt', ent[2]) + ((ent[3],) if len(ent) > 3 else ())])
            elif not ent[1]:
                stack.append(st.choices[:k] + [(not ent[0], False)])
        # obligations recorded before a path was cut (loop cut, assume(False)) were recorded under the
        # path condition of that moment and count as well
        if shard is not None and shard[0] != 0 and not st.sharded:
            st.obligs = []               # a path that meets no wide branch is reported by shard 0 only
        for o in st.obligs:
            o.meta['_inputs'] = st.inputs
            key = (o.label, tuple(c.get_id() for c in o.pc), o.claim.get_id())
            if key in seen_obl:          # the same obligation re-derived on a sibling path (terms are hash-consed)
                continue
            seen_obl.add(key)
            res.obligs.append(o)
        if finished:
            res.paths += 1
            res.covers |= st.covers
            for a in st.assumed_calls:
                if a not in res.assumed:
                    res.assumed.append(a)
            for a in st.unknown_calls:
                if a not in res.unknown_calls:
                    res.unknown_calls.append(a)
        for a in st.lemmas_used:
            if a not in res.lemmas_used:
                res.lemmas_used.append(a)
        if res.paths + res.aborted > max_paths:
            res.out_of_reach = 'out of reach: more than %d paths' % max_paths
            break
    V._CUR[0] = None
    res.secs = time.time() - t0
    return res


# ----------------------------------------------------------------------------- discharge
def _smt2(pc, claim):
    s = z3.Solver()
    for c in pc:
        s.add(c)
    s.add(z3.Not(claim))
    return '(set-logic ALL)\n' + s.to_smt2()


def _cvc5(smt2, ms):
    with tempfile.NamedTemporaryFile('w', suffix='.smt2', delete=False, dir=os.environ.get('PYVC_TMP', '/var/tmp')) as f:
        f.write(smt2)
        path = f.name
    try:
        p = subprocess.run(['/usr/bin/cvc5', '--tlimit=%d' % ms, path], capture_output=True, text=True, timeout=ms / 1000 + 10)
        out = p.stdout.strip().splitlines()
        return out[0] if out else 'unknown'
    except Exception:
        return 'unknown'
    finally:
        os.unlink(path)


def _check(s, ms):
    """solver.check() under a wall-clock guard: z3's `timeout` parameter is not honoured inside some of its tactics (a check was observed
    to run for minutes with a 10 s timeout), so a timer interrupts the context a little after the budget; the result is then unknown"""
    import threading
    t = threading.Timer(ms / 1000.0 + 3.0, s.ctx.interrupt)
    t.daemon = True
    t.start()
    try:
        return s.check()
    except z3.Z3Exception:
        return z3.unknown
    finally:
        t.cancel()


def discharge(o, z3_ms=10000, cvc5_ms=20000, both=False):
    """decide one obligation.  unsat -> discharged; sat -> refuted with model; else unknown."""
    t = time.time()
    o.solver = 'z3'
    # lambda arrays (uninterpreted folds over derived sequences) make z3's array theory incomplete ("unknown" at once or after a
    # long search): when the claim itself mentions none, first look for a proof from the path condition without those facts
    # (dropping assumptions is sound for unsat)
    if not _has_lambda(o.claim):
        keep = [c for c in o.pc if not _has_lambda(c)]
        if len(keep) < len(o.pc):
            s0 = z3.Solver()
            s0.set('timeout', z3_ms)
            for c in keep:
                s0.add(c)
            s0.add(z3.Not(o.claim))
            if _check(s0, z3_ms) == z3.unsat:
                o.status = 'discharged'
                o.detail = 'discharged without the lambda-array facts of the path condition'
                o.secs = time.time() - t
                return o
    s = z3.Solver()
    s.set('timeout', z3_ms)
    for c in o.pc:
        s.add(c)
    s.add(z3.Not(o.claim))
    r = _check(s, z3_ms)
    if r == z3.unknown and time.time() - t < z3_ms / 2000.0:
        # the quantifier engine gave up early (not a timeout): retry with other seeds before handing over to cvc5
        for seed in (1, 2, 3):
            s2 = z3.Solver()
            s2.set('timeout', z3_ms)
            s2.set('smt.random_seed', seed)
            for c in o.pc:
                s2.add(c)
            s2.add(z3.Not(o.claim))
            r = _check(s2, z3_ms)
            if r != z3.unknown:
                s = s2
                break
    if r == z3.unknown and not _has_lambda(o.claim):
        # lambda arrays (uninterpreted folds over derived sequences) make z3's array theory incomplete: a proof that does
        # not need those facts is found from the path condition without them (dropping assumptions is sound for unsat)
        keep = [c for c in o.pc if not _has_lambda(c)]
        if len(keep) < len(o.pc):
            s3 = z3.Solver()
            s3.set('timeout', z3_ms)
            for c in keep:
                s3.add(c)
            s3.add(z3.Not(o.claim))
            if _check(s3, z3_ms) == z3.unsat:
                r = z3.unsat
                o.detail = 'discharged without the lambda-array facts of the path condition'
    if r == z3.unsat:
        o.status = 'discharged'
    elif r == z3.sat:
        o.status = 'refuted'
        m = s.model()
        # prefer a small counter-model (short sequences, small numbers): easier to replay and to read
        inputs = o.meta.get('_inputs', [])
        for bound in (4, 16, 64):
            s.push()
            for name, kind, p in inputs:
                if kind == 'seq' and not isinstance(p[0], int):
                    s.add(p[0] <= bound)
                elif kind == 'int' and z3.is_int(p):
                    s.add(p <= 70000, p >= -bound)
            s.set('timeout', 2000)
            r2 = _check(s, 2000)
            if r2 == z3.sat:
                m = s.model()
                s.pop()
                break
            s.pop()
        o.model = extract_model(m, inputs)
        o.ghost = sorted(_free_consts(o.pc + [o.claim]) - _input_consts(inputs))[:12]
    else:
        o.status = 'unknown'
    if o.status == 'unknown' or both:
        c = _cvc5(_smt2(o.pc, o.claim), cvc5_ms)
        if o.status == 'unknown':
            if c == 'unsat':
                o.status, o.solver = 'discharged', 'cvc5'
            elif c == 'sat':
                o.status, o.solver = 'unknown', 'cvc5'   # no model through this route: stay undecided
                o.detail = 'cvc5 sat, z3 unknown (no model extracted)'
        elif both and c in ('sat', 'unsat'):
            z = 'unsat' if o.status == 'discharged' else 'sat'
            if c != z:
                o.detail = 'SOLVER-DISAGREEMENT z3=%s cvc5=%s' % (z, c)
                o.status = 'error'
            else:
                o.solver = 'z3+cvc5'
    o.secs = time.time() - t
    return o


def _consts_of(t, out, seen):
    stack = [t]
    while stack:
        x = stack.pop()
        if x.get_id() in seen:
            continue
        seen.add(x.get_id())
        if z3.is_quantifier(x):
            stack.append(x.body())
            continue
        if z3.is_app(x):
            d = x.decl()
            if d.kind() == z3.Z3_OP_UNINTERPRETED:
                # constants, and uninterpreted functions (the folds crc16 / lrc / ...: a model may give them values the specified function
                # does not have - such a counter-model is not an input either)
                out.add(d.name() if x.num_args() == 0 else d.name() + '()')
            stack.extend(x.children())


def _free_consts(terms):
    """names of the uninterpreted constants (ints, bools, arrays) a formula mentions"""
    out, seen = set(), set()
    for t in terms:
        _consts_of(t, out, seen)
    return out


def _input_consts(inputs):
    """names of the constants that stand for the unit's inputs (everything else a formula mentions is havoc-ed / ghost state)"""
    out, seen = set(), set()
    for name, kind, p in inputs:
        ps = p if isinstance(p, tuple) else (p,)
        for q in ps:
            if isinstance(q, z3.ExprRef):
                _consts_of(q, out, seen)
    return out


def extract_model(m, inputs):
    out = {}
    for name, kind, p in inputs:
        try:
            if kind == 'int':
                v = m.eval(p, model_completion=True)
                out[name] = v.as_long() if z3.is_int_value(v) else (z3.is_true(v) if z3.is_bool(v) else str(v))
            elif kind == 'const':
                out[name] = p
            elif kind == 'seq':
                n, arr, elem, skind = p
                nv = m.eval(n, model_completion=True).as_long() if not isinstance(n, int) else n
                nv = max(0, min(nv, 4096))
                items = []
                for k in range(nv):
                    e = m.eval(arr[k], model_completion=True).as_long()
                    items.append(bool(e) if elem == 'bool' else e)
                out[name] = {'kind': skind, 'items': items}
            elif kind == 'map':
                dom, val, elem = p
                # enumerate keys mentioned in the model's interpretation
                keys = set()
                try:
                    fi = m[dom.decl()] if hasattr(dom, 'decl') else None
                except Exception:
                    fi = None
                d = {}
                cand = set(range(-2, 300))
                def nums(t, depth=0):
                    if z3.is_int_value(t):
                        cand.update(range(t.as_long() - 1, t.as_long() + 2))
                    elif depth < 40:
                        for ch in t.children():
                            nums(ch, depth + 1)
                try:
                    nums(m.eval(dom, model_completion=True)); nums(m.eval(val, model_completion=True))
                except Exception:
                    pass
                for (n2, k2, p2) in inputs:
                    if k2 == 'int':
                        v2 = m.eval(p2, model_completion=True)
                        if z3.is_int_value(v2):
                            cand.update(range(v2.as_long() - 2, v2.as_long() + 300))
                for k in sorted(cand):
                    if len(d) > 5000:
                        break
                    if z3.is_true(m.eval(dom[k], model_completion=True)):
                        e = m.eval(val[k], model_completion=True).as_long()
                        d[k] = bool(e) if elem == 'bool' else e
                out[name] = {'kind': 'map', 'items': d}
        except Exception as ex:      # model extraction is best effort
            out[name] = 'unextractable: %s' % ex
    return out
